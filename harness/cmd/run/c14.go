package main

import (
	"fmt"

	"harness/sx"

	exprtok "github.com/pip-services3-gox/pip-services3-expressions-gox/calculator/tokenizers"
	"github.com/pip-services3-gox/pip-services3-expressions-gox/csv"
	sio "github.com/pip-services3-gox/pip-services3-expressions-gox/io"
	"github.com/pip-services3-gox/pip-services3-expressions-gox/tokenizers"
	"github.com/pip-services3-gox/pip-services3-expressions-gox/tokenizers/generic"
)

// C14 — quote states. input = (state q s rest); output = (enc dec(s) dec(enc) tok1 left1 tok2 left2)
func init() {
	register(&Prop{
		ID:   "C14",
		Rule: "strings over {quote, other quote, a, e-acute (2-byte), CJK (3-byte), emoji (4-byte), space, LF}: exhaustive up to length 3 (quick) / 4 (thorough) x quote characters {\", ', e-acute, CJK} x the three quote states, each followed by one of five stream continuations; random strings up to length 12 beyond; non-trivial = the string contains the quote character or a non-ASCII character; distinct by input hash",
		Gen:  genC14,
		Run:  runC14,
		Human: func(in sx.SX) string {
			l := sx.AsList(in)
			return fmt.Sprintf("%s quote state, quote %s, string %s, followed by %s", []string{"generic", "expression", "csv"}[sx.AsInt(l[0])],
				sx.Quote(string(rune(sx.AsInt(l[1])))), sx.Quote(sx.AsString(l[2])), sx.Quote(sx.AsString(l[3])))
		},
	})
}

func genC14(ctx *Ctx) {
	// scale (direct oracle only): strings of 100 .. 20000 characters with many quote characters, for every state and quote
	for _, n := range []int{100, 129, 257, 1025, 5000, 20000} {
		for _, q := range []rune{'"', '\'', 'é'} {
			rs := make([]rune, n)
			for i := range rs {
				rs[i] = []rune{'a', q, 'é', q, q, ' ', '日', 'b', '\n', '😀'}[(i*7+i/3)%10]
			}
			for st := int64(0); st < 3; st++ {
				ctx.OracleOnly(sx.L(sx.I(st), sx.I(int64(q)), sx.R(rs), sx.R([]rune{',', 'x'})), fmt.Sprintf("scale: a string of %d characters", n))
			}
		}
	}
	quotes := []rune{'"', '\'', 'é', '日'}
	depth := 3
	if ctx.Thorough {
		depth = 4
	}
	for _, q := range quotes {
		other := '\''
		if q == '\'' {
			other = '"'
		}
		alpha := []rune{q, other, 'a', 'é', '日', '😀', ' ', '\n', 0xFFFF}
		if q == 'é' {
			alpha[3] = 'x'
		}
		if q == '日' {
			alpha[4] = 'y'
		}
		rests := [][]rune{{}, {','}, {' ', q}, {'a', q, q}, {other}}
		var rec func(cur []rune, k int)
		rec = func(cur []rune, k int) {
			nt := false
			for _, r := range cur {
				if r == q || r > 127 {
					nt = true
				}
			}
			for st := int64(0); st < 3; st++ {
				rest := rests[(len(cur)+int(st)+int(q))%len(rests)]
				ctx.Count(fmt.Sprintf("exhaustive-len:%d", len(cur)))
				ctx.Input(sx.L(sx.I(st), sx.I(int64(q)), sx.R(cur), sx.R(rest)), nt)
			}
			if k == 0 {
				return
			}
			for _, c := range alpha {
				rec(append(append([]rune{}, cur...), c), k-1)
			}
		}
		rec(nil, depth)
	}
	for i := 0; i < ctx.N; i++ {
		q := quotes[ctx.Rnd.Intn(len(quotes))]
		alpha := []rune{q, q, '\'', '"', 'a', 'é', '日', '😀', ' ', '\n', 0x10FFFF, 1, 0xFFFF, 0xFFFE, 0xFFFD}
		n := ctx.Rnd.Intn(13)
		s := make([]rune, n)
		nt := false
		for j := range s {
			s[j] = alpha[ctx.Rnd.Intn(len(alpha))]
			if s[j] == q || s[j] > 127 {
				nt = true
			}
		}
		m := ctx.Rnd.Intn(4)
		rest := make([]rune, m)
		for j := range rest {
			rest[j] = alpha[ctx.Rnd.Intn(len(alpha))]
		}
		if m > 0 && rest[0] == q {
			rest[0] = ','
		}
		ctx.Count(fmt.Sprintf("random-len:%d", n))
		ctx.Input(sx.L(sx.I(int64(ctx.Rnd.Intn(3))), sx.I(int64(q)), sx.R(s), sx.R(rest)), nt)
	}
}

type quoteState interface {
	tokenizers.IQuoteState
}

var c14Warm = map[string]tokenizers.ITokenizer{}

// one quote-state object of each kind lives through the whole run and meets every quote character in turn
var c14States = map[int64]quoteState{}

func runC14(in sx.SX) (sx.SX, string) {
	l := sx.AsList(in)
	var st quoteState
	switch sx.AsInt(l[0]) {
	case 0:
		st = generic.NewGenericQuoteState()
	case 1:
		st = exprtok.NewExpressionQuoteState()
	default:
		st = csv.NewCsvQuoteState()
	}
	q := rune(sx.AsInt(l[1]))
	s, rest := sx.AsString(l[2]), sx.AsString(l[3])
	enc := st.EncodeString(s, q)
	decS := st.DecodeString(s, q)
	decEnc := st.DecodeString(enc, q)
	read := func(stream string) (string, int) {
		sc := sio.NewStringScanner(stream)
		tok := st.NextToken(sc, nil)
		left := 0
		for sc.Read() != -1 {
			left++
		}
		return tok.Value(), left
	}
	t1, l1 := read(enc + rest)
	t2, l2 := read(string(q) + s)
	fail := ""
	if decEnc != s {
		fail = fmt.Sprintf("DecodeString(EncodeString(%s)) = %s", sx.Quote(s), sx.Quote(decEnc))
	}
	if fail == "" {
		old := c14States[sx.AsInt(l[0])]
		if old == nil {
			switch sx.AsInt(l[0]) {
			case 0:
				old = generic.NewGenericQuoteState()
			case 1:
				old = exprtok.NewExpressionQuoteState()
			default:
				old = csv.NewCsvQuoteState()
			}
			c14States[sx.AsInt(l[0])] = old
		}
		if e2 := old.EncodeString(s, q); e2 != enc {
			fail = fmt.Sprintf("a quote state used before (with other quote characters) encodes %s as %s, a new one as %s", sx.Quote(s), sx.Quote(e2), sx.Quote(enc))
		} else if d2 := old.DecodeString(enc, q); d2 != s {
			fail = fmt.Sprintf("a quote state used before (with other quote characters) decodes %s to %s, not to %s", sx.Quote(enc), sx.Quote(d2), sx.Quote(s))
		} else if d3 := old.DecodeString(s, q); d3 != decS {
			fail = fmt.Sprintf("a quote state used before (with other quote characters) decodes %s to %s, a new one to %s", sx.Quote(s), sx.Quote(d3), sx.Quote(decS))
		}
	}
	if fail == "" && sx.AsInt(l[0]) != 0 {
		rr := []rune(rest)
		if len(rr) == 0 || rr[0] != q {
			if t1 != enc || l1 != len(rr) {
				fail = fmt.Sprintf("the encoded form %s followed by %s was read back as token %s with %d characters left", sx.Quote(enc), sx.Quote(rest), sx.Quote(t1), l1)
			} else if d := st.DecodeString(t1, q); d != s {
				fail = fmt.Sprintf("the token read back decodes to %s, not to %s", sx.Quote(d), sx.Quote(s))
			}
		}
	}
	// the same through a whole tokenizer with string decoding on: the first token is the decoded string, and what
	// follows it is tokenized as it is on its own
	if fail == "" && sx.AsInt(l[0]) != 0 {
		rr := []rune(rest)
		var tk tokenizers.ITokenizer
		mk := func() tokenizers.ITokenizer {
			if sx.AsInt(l[0]) == 1 {
				if q != '\'' && q != '"' {
					return nil
				}
				return exprtok.NewExpressionTokenizer()
			}
			c := csv.NewCsvTokenizer()
			c.SetQuoteSymbols([]rune{q})
			return c
		}
		tk = mk()
		if tk != nil && (len(rr) == 0 || rr[0] != q) {
			tk.SetDecodeStrings(true)
			toks := tk.TokenizeBuffer(enc + rest)
			alone := mk()
			alone.SetDecodeStrings(true)
			after := alone.TokenizeBuffer(rest)
			// the same on a tokenizer object that was left with a pending look-ahead by an earlier case
			wk := fmt.Sprint(sx.AsInt(l[0]), q)
			w := c14Warm[wk]
			if w == nil {
				w = mk()
				w.SetDecodeStrings(true)
				c14Warm[wk] = w
			}
			wt := w.TokenizeBuffer(enc + rest)
			if len(wt) != len(toks) || (len(wt) > 0 && wt[0].Value() != toks[0].Value()) {
				v := "<none>"
				if len(wt) > 0 {
					v = sx.Quote(wt[0].Value())
				}
				fail = fmt.Sprintf("a tokenizer object with an abandoned look-ahead reads %s as %d tokens starting with %s, a new one as %d", sx.Quote(enc+rest), len(wt), v, len(toks))
			}
			w.SetReader(sio.NewStringScanner(enc + "x"))
			w.HasNextToken()
			if len(toks) == 0 || toks[0].Value() != s {
				v := "<none>"
				if len(toks) > 0 {
					v = sx.Quote(toks[0].Value())
				}
				fail = fmt.Sprintf("tokenizing %s with string decoding on: the first token is %s, the string was %s", sx.Quote(enc+rest), v, sx.Quote(s))
			} else if len(toks)-1 != len(after) {
				fail = fmt.Sprintf("tokenizing %s with string decoding on: %d tokens follow the string, %s alone gives %d", sx.Quote(enc+rest), len(toks)-1, sx.Quote(rest), len(after))
			} else {
				for i := range after {
					if toks[i+1].Type() != after[i].Type() || toks[i+1].Value() != after[i].Value() {
						fail = fmt.Sprintf("tokenizing %s with string decoding on: token %d after the string is %s, in %s alone it is %s", sx.Quote(enc+rest), i, sx.Quote(toks[i+1].Value()), sx.Quote(rest), sx.Quote(after[i].Value()))
						break
					}
				}
			}
		}
	}
	return sx.L(sx.S(enc), sx.S(decS), sx.S(decEnc), sx.S(t1), sx.N(l1), sx.S(t2), sx.N(l2)), fail
}
