package main

import (
	"fmt"
	"math"
	"os"
	"os/exec"
	"strings"

	"harness/sx"

	"github.com/pip-services3-gox/pip-services3-expressions-gox/calculator"
	"github.com/pip-services3-gox/pip-services3-expressions-gox/calculator/functions"
	"github.com/pip-services3-gox/pip-services3-expressions-gox/calculator/variables"
	"github.com/pip-services3-gox/pip-services3-expressions-gox/mustache"
	"github.com/pip-services3-gox/pip-services3-expressions-gox/variants"
)

// C03 — untrusted input never crashes the library: a result or an error, always.
// kind 0: expression + variable assignment, evaluated with the REAL operators (the whole pipeline is modelled)
// kind 1: template + variables; kind 2: tokenizer; kind 3: quote decoding
// Every call runs under recover and a watchdog (harness framework); a panic or a hang is a violation.

// spyOps wraps the real manager and records every value that passes through it, so that the harness can supply the
// host-oracle answers (float / time formatting and parsing, math.Pow) for exactly the values that occur.
type spyOps struct {
	inner variants.IVariantOperations
	seen  *[]*variants.Variant
	pows  *[][2]*variants.Variant
}

func (s spyOps) note(vs ...*variants.Variant) {
	for _, v := range vs {
		if v != nil {
			*s.seen = append(*s.seen, v)
		}
	}
}
func (s spyOps) r2(a, b, r *variants.Variant, err error) (*variants.Variant, error) {
	if a != nil && b != nil && farDate(a, b) {
		c03FarDate = true // an operator converts an integer further than 2^40 seconds from the epoch into a date-time: time.Time itself overflows there (DESIGN.md 4.3)
	}
	s.note(a, b, r)
	return r, err
}
func (s spyOps) Convert(v *variants.Variant, t variants.VariantType) (*variants.Variant, error) {
	r, err := s.inner.Convert(v, t)
	s.note(v, r)
	return r, err
}
func (s spyOps) Add(a, b *variants.Variant) (*variants.Variant, error) {
	r, e := s.inner.Add(a, b)
	return s.r2(a, b, r, e)
}
func (s spyOps) Sub(a, b *variants.Variant) (*variants.Variant, error) {
	r, e := s.inner.Sub(a, b)
	return s.r2(a, b, r, e)
}
func (s spyOps) Mul(a, b *variants.Variant) (*variants.Variant, error) {
	r, e := s.inner.Mul(a, b)
	return s.r2(a, b, r, e)
}
func (s spyOps) Div(a, b *variants.Variant) (*variants.Variant, error) {
	r, e := s.inner.Div(a, b)
	return s.r2(a, b, r, e)
}
func (s spyOps) Mod(a, b *variants.Variant) (*variants.Variant, error) {
	r, e := s.inner.Mod(a, b)
	return s.r2(a, b, r, e)
}
func (s spyOps) Pow(a, b *variants.Variant) (*variants.Variant, error) {
	*s.pows = append(*s.pows, [2]*variants.Variant{a, b})
	r, e := s.inner.Pow(a, b)
	return s.r2(a, b, r, e)
}
func (s spyOps) And(a, b *variants.Variant) (*variants.Variant, error) {
	r, e := s.inner.And(a, b)
	return s.r2(a, b, r, e)
}
func (s spyOps) Or(a, b *variants.Variant) (*variants.Variant, error) {
	r, e := s.inner.Or(a, b)
	return s.r2(a, b, r, e)
}
func (s spyOps) Xor(a, b *variants.Variant) (*variants.Variant, error) {
	r, e := s.inner.Xor(a, b)
	return s.r2(a, b, r, e)
}
func (s spyOps) Lsh(a, b *variants.Variant) (*variants.Variant, error) {
	r, e := s.inner.Lsh(a, b)
	return s.r2(a, b, r, e)
}
func (s spyOps) Rsh(a, b *variants.Variant) (*variants.Variant, error) {
	r, e := s.inner.Rsh(a, b)
	return s.r2(a, b, r, e)
}
func (s spyOps) Not(a *variants.Variant) (*variants.Variant, error) {
	r, e := s.inner.Not(a)
	return s.r2(a, nil, r, e)
}
func (s spyOps) Negative(a *variants.Variant) (*variants.Variant, error) {
	r, e := s.inner.Negative(a)
	return s.r2(a, nil, r, e)
}
func (s spyOps) Equal(a, b *variants.Variant) (*variants.Variant, error) {
	r, e := s.inner.Equal(a, b)
	return s.r2(a, b, r, e)
}
func (s spyOps) NotEqual(a, b *variants.Variant) (*variants.Variant, error) {
	r, e := s.inner.NotEqual(a, b)
	return s.r2(a, b, r, e)
}
func (s spyOps) More(a, b *variants.Variant) (*variants.Variant, error) {
	r, e := s.inner.More(a, b)
	return s.r2(a, b, r, e)
}
func (s spyOps) Less(a, b *variants.Variant) (*variants.Variant, error) {
	r, e := s.inner.Less(a, b)
	return s.r2(a, b, r, e)
}
func (s spyOps) MoreEqual(a, b *variants.Variant) (*variants.Variant, error) {
	r, e := s.inner.MoreEqual(a, b)
	return s.r2(a, b, r, e)
}
func (s spyOps) LessEqual(a, b *variants.Variant) (*variants.Variant, error) {
	r, e := s.inner.LessEqual(a, b)
	return s.r2(a, b, r, e)
}
func (s spyOps) In(a, b *variants.Variant) (*variants.Variant, error) {
	r, e := s.inner.In(a, b)
	return s.r2(a, b, r, e)
}
func (s spyOps) GetElement(a, b *variants.Variant) (*variants.Variant, error) {
	r, e := s.inner.GetElement(a, b)
	return s.r2(a, b, r, e)
}

type spyFn struct {
	inner functions.IFunction
	calls *[]spyCall
}
type spyCall struct {
	name string
	args []*variants.Variant
}

func (f spyFn) Name() string { return f.inner.Name() }
func (f spyFn) Calculate(ps []*variants.Variant, ops variants.IVariantOperations) (*variants.Variant, error) {
	*f.calls = append(*f.calls, spyCall{f.inner.Name(), append([]*variants.Variant{}, ps...)})
	return f.inner.Calculate(ps, ops)
}

type spyFuncs struct {
	*functions.DefaultFunctionCollection
	calls *[]spyCall
}

func (c spyFuncs) FindByName(name string) functions.IFunction {
	f := c.DefaultFunctionCollection.FindByName(name)
	if f == nil {
		return nil
	}
	return spyFn{f, c.calls}
}

var c03Funcs = []string{"Min", "Max", "Sum", "If", "Choose", "Abs", "Sqrt", "Exp", "Log", "Ceil", "Floor", "Round", "Trunc", "Sin", "Contains", "Array", "Empty", "TimeSpan", "Date", "DayOfWeek", "E", "Pi", "nosuch"}

func init() {
	register(&Prop{ID: "C03", Gen: genC03, Run: runC03,
		Human: func(in sx.SX) string {
			l := sx.AsList(in)
			switch sx.AsInt(l[0]) {
			case 0:
				e := sx.AsList(l[1])
				var vs []string
				for _, b := range sx.AsList(e[2]) {
					bb := sx.AsList(b)
					vs = append(vs, sx.AsString(bb[0])+"="+sx.Text(bb[1]))
				}
				return fmt.Sprintf("SetExpression(%s); Evaluate with %s (%s manager)", sx.Quote(sx.AsString(e[0])), strings.Join(vs, " "), []string{"type-unsafe", "type-safe"}[sx.AsInt(l[3])])
			case 1:
				return "SetTemplate+Evaluate: " + props["C10"].Human(l[1])
			case 2:
				return tokHuman(l[1])
			case 4:
				return "SetExpression of 1,000,000 nested parentheses, in a child process"
			}
			return props["C14"].Human(l[1])
		},
		Rule: "expressions: generated trees with every operator, every default function (clock/random excepted), indexing, under assignments of boundary values of every supported type (integer, long, float, double, string, boolean, null, time span, date-time, arrays), token-level mutants, random strings over the significant characters, exhaustive strings<=3 (quick: <=2) over {a 1 ' \" ( ) [ ] , + - * / < > = ! . space e-acute emoji}; templates: generated and broken templates, random lexeme strings; tokenizers: hostile strings under random options; quote decoding: arbitrary strings; every call under recover and a 20 s watchdog; the outcome (full value or error code) is compared with the model of the whole pipeline; non-trivial = at least 3 tokens; distinct by input hash"})
}

func c03Env(ctx *Ctx) sx.SX {
	pool := valuePool()
	var env sx.List
	for _, n := range []string{"a", "b", "c", "x1", "_y", "q id", "Z", "é1"} {
		var v *variants.Variant
		for {
			v = pool[ctx.Rnd.Intn(len(pool))]
			if v.Type() != variants.Object && !(v.Type() == variants.DateTime && false) {
				break
			}
		}
		env = append(env, sx.L(sx.S(n), valSXin(v)))
	}
	return env
}

func genC03Tree(ctx *Ctx, depth int) *Tree {
	t := genTree(ctx.Rnd, depth)
	var fix func(t *Tree)
	fix = func(t *Tree) {
		if t.Kind == "call" {
			t.Text = c03Funcs[ctx.Rnd.Intn(len(c03Funcs))]
		}
		for _, a := range t.Args {
			fix(a)
		}
	}
	fix(t)
	return t
}

func genC03(ctx *Ctx) {
	emitExpr := func(text string, tag string, nt bool) {
		ctx.Count("expression:" + tag)
		env := c03Env(ctx)
		safe := ctx.Rnd.Intn(4) == 0
		orc := c03Oracle(text, env, safe)
		if c03FarDate {
			ctx.Count("skipped:far-date")
			return
		}
		ctx.Input(sx.L(sx.I(0), exprInput(text, env, nil), orc, sx.B(safe)), nt)
	}
	for i := 0; i < ctx.N; i++ {
		t := genC03Tree(ctx, 1+ctx.Rnd.Intn(5))
		p := &printer{rnd: ctx.Rnd, parens: ctx.Rnd.Intn(3), noise: ctx.Rnd.Intn(3) == 0}
		text := p.at(t, 0)
		emitExpr(text, "tree", true)
		if i%2 == 0 {
			mt := mutateTokens(ctx, textTokens(text))
			emitExpr(strings.Join(mt, " "), "mutant", len(mt) >= 3)
		}
	}
	for _, s := range []string{"1/0", "1%0", "a[5]", "'abc'[5]", "Array(1,2)[-1]", "1 << -1", "1 >> 64", "1 NOT IN a", "\"\"", "1 2", "1 )", "*", "NOT NOT a", "Max(a,1)", "Acos(1)", "Min()", "Choose(-1,1,2)", "Choose(9,1,2)", "If(a,1)", "2^3", "2.0^3", "a IS NULL IS NOT NULL", "'é'", "'日本'[1]", "((((((((1))))))))", "f(", "a[", "'x", "/* x", "1e", "1e+", ".", "-", "!", "a LIKE b", "Sum(1,'a',TRUE)", "'héé'[3]", "'héé'[4]", "'日本'[2]", "'日本'[5]", "'日本'[6]", "'😀'[1]", "'😀'[3]", "'😀'[4]", "9223372036854775807 + 1", "-9223372036854775807 - 2", "1.5 % 2", "'a' * 2", "TRUE + 1", "Array(1,2) + 1", "Date(2020,1,1) - Date(2019,1,1)", "TimeSpan(1) + TimeSpan(1,2,3)", "DayOfWeek(Date(2020,1,5))",
		"Array(1,)", "Sum(1,)", "Sum(1, 2,)", "2 + Max(1,)", "Sum(,)", "Sum(,1)", "Min(1,,2)", "Array()", "Array(,)", "Sum(1,) + Sum(2,)", "a[1,]", "If(1,2,3,)", "Choose(1, 2,)", "Abs(1,)",
		"a IS", "a IS NOT", "x1 + 1 NOT", "a NOT", "(a) IS NOT", "a IS NOT NULL IS", "NOT", "IS", "a IN", "a NOT IN", "a NOT LIKE", "a IS NULL NOT", "f(a IS", "a[1 IS NOT",
		"FALSE AND a", "TRUE OR a", "FALSE AND Array(1)", "a AND FALSE", "Choose(1-3,1,2)", "Choose(9223372036854775807,1,2)"} {
		emitExpr(s, "special", true)
	}
	// every value of the boundary pool as the variable a, under every kind of use of a variable: indexed, negated, added,
	// searched, searched in, tested, passed to functions, compared with itself
	{
		pool := valuePool()
		for pi, v := range pool {
			if v.Type() == variants.Object {
				continue
			}
			for ti, text := range []string{"a[0]", "a[1]", "a[-1]", "-a", "a + 1", "1 + a", "a IN a", "1 IN a", "a IN b", "a IS NULL", "Abs(a)", "Min(a, 1)", "a[0] = 1", "NOT a", "a ^ 2", "a << 1", "a = a", "Array(a)[0]", "If(a, 1, 2)", "a[b]", "b[a]"} {
				other := pool[(pi*7+ti*13+3)%len(pool)]
				if other.Type() == variants.Object {
					other = pool[1]
				}
				env := sx.List{sx.L(sx.S("a"), valSXin(v)), sx.L(sx.S("b"), valSXin(other))}
				safe := (pi+ti)%4 == 0
				orc := c03Oracle(text, env, safe)
				if c03FarDate {
					continue
				}
				ctx.Count("expression:every-value")
				ctx.Input(sx.L(sx.I(0), exprInput(text, env, nil), orc, sx.B(safe)), true)
			}
		}
	}
	// scale (direct oracle only): thousands of pending operands, hundreds of nesting levels, long texts - still exactly one
	// of a result and an error, never a panic
	for _, n := range []int{40, 130, 520, 1030, 1100, 2100} {
		rep := func(item, sep string, k int) string { return strings.TrimSuffix(strings.Repeat(item+sep, k), sep) }
		for _, text := range []string{
			"Array(" + rep("1", ", ", n) + ")", "Sum(" + rep("a", ", ", n) + ")", "1 IN Array(" + rep("2", ",", n) + ")", "Max(" + rep("1.5", ",", n) + ")",
			strings.Repeat("1+(", n) + "1" + strings.Repeat(")", n), strings.Repeat("(", n) + "a" + strings.Repeat(")", n), rep("a", " + ", n),
			strings.Repeat("Abs(", n) + "a" + strings.Repeat(")", n), strings.Repeat("- ", n) + "1", strings.Repeat("NOT ", n) + "TRUE", strings.Repeat("(", n),
			"a" + strings.Repeat("[0]", n), strings.Repeat("Array(", min(n, 600)) + "1" + strings.Repeat(")", min(n, 600)), "'" + strings.Repeat("é", n) + "'[" + fmt.Sprint(n-1) + "]",
		} {
			env := c03Env(ctx)
			ctx.OracleOnly(sx.L(sx.I(0), exprInput(text, env, nil), sx.L(), sx.B(false)), fmt.Sprintf("scale %d", n))
		}
	}
	chars := []string{"a", "1", "'", "\"", "(", ")", "[", "]", ",", "+", "-", "*", "/", "<", ">", "=", "!", ".", " ", "é", "😀"}
	depth := 2
	if ctx.Thorough {
		depth = 3
	}
	var rec func(cur string, k int)
	rec = func(cur string, k int) {
		if cur != "" {
			emitExpr(cur, "exhaustive", false)
		}
		if k == 0 {
			return
		}
		for _, c := range chars {
			rec(cur+c, k-1)
		}
	}
	rec("", depth)
	for i := 0; i < ctx.N; i++ {
		n := 1 + ctx.Rnd.Intn(12)
		var sb strings.Builder
		for j := 0; j < n; j++ {
			sb.WriteString(chars[ctx.Rnd.Intn(len(chars))])
		}
		emitExpr(sb.String(), "random-chars", n >= 3)
	}
	// templates
	lex := []string{"{{", "}}", "{{{", "}}}", "#", "/", "^", "!", "if", "unless", "a", "B", " ", "text", "'", "\"", "{", "}", ".", "😀"}
	for i := 0; i < ctx.N/2; i++ {
		var tpl string
		if i%2 == 0 {
			tpl = mPrint(ctx.Rnd, genMNodes(ctx.Rnd, 1+ctx.Rnd.Intn(3)))
			if ctx.Rnd.Intn(2) == 0 && len(tpl) > 2 {
				cut := ctx.Rnd.Intn(len(tpl))
				for cut < len(tpl) && tpl[cut]&0xC0 == 0x80 {
					cut++
				}
				tpl = tpl[:cut] // cut anywhere: unclosed tags and sections
			}
		} else {
			n := 1 + ctx.Rnd.Intn(8)
			var sb strings.Builder
			for j := 0; j < n; j++ {
				sb.WriteString(lex[ctx.Rnd.Intn(len(lex))])
			}
			tpl = sb.String()
		}
		ctx.Count("template")
		ctx.Input(sx.L(sx.I(1), mInput(tpl, genVars(ctx.Rnd), sx.L())), true)
	}
	// tokenizers on hostile strings
	for i := 0; i < ctx.N/2; i++ {
		n := 1 + ctx.Rnd.Intn(16)
		text := make([]rune, n)
		for j := range text {
			text[j] = tokAlphabet[ctx.Rnd.Intn(len(tokAlphabet))]
		}
		kind := ctx.Rnd.Intn(4)
		cfg := defaultCsvCfg
		if kind == 2 {
			cfg = csvCfgs[ctx.Rnd.Intn(len(csvCfgs))]
		}
		ctx.Count("tokenizer:" + tokNames[kind])
		ctx.Input(sx.L(sx.I(2), tokInput(kind, ctx.Rnd.Intn(128), text, cfg)), true)
	}
	// quote decoding
	qa := []rune{'"', '\'', 'a', 'é', '日', '😀', ' '}
	for i := 0; i < ctx.N/4; i++ {
		n := ctx.Rnd.Intn(6)
		s := make([]rune, n)
		for j := range s {
			s[j] = qa[ctx.Rnd.Intn(len(qa))]
		}
		ctx.Count("decode")
		ctx.Input(sx.L(sx.I(3), sx.L(sx.I(int64(ctx.Rnd.Intn(3))), sx.I(int64(qa[ctx.Rnd.Intn(2)])), sx.R(s), sx.R(nil))), true)
	}
	if ctx.Thorough {
		ctx.Count("probe:K2")
		ctx.Input(sx.L(sx.I(4), sx.L(), sx.L(), sx.I(0)), true)
	}
}

func c03ErrCode(err error) int64 {
	code := codeOf(err)
	if c, ok := syntaxCodes[code]; ok {
		if code == "INTERNAL" {
			return 22
		}
		return c
	}
	if c, ok := varErrCodes[code]; ok {
		return 30 + c
	}
	if c, ok := fnErrCodes[code]; ok {
		return 30 + c
	}
	return 99
}

func runC03(in sx.SX) (sx.SX, string) {
	l := sx.AsList(in)
	switch sx.AsInt(l[0]) {
	case 1:
		return runC03Template(l[1])
	case 2:
		return runTok("C03")(l[1])
	case 3:
		obs, _ := runC14(l[1])
		return obs, ""
	case 4:
		return sx.L(sx.I(1), sx.I(1)), probeK2()
	}
	e := sx.AsList(l[1])
	text := sx.AsString(e[0])
	safe := sx.AsBool(l[3])
	calc := calculator.NewExpressionCalculator() // automatic variables stay on, as by default
	if err := calc.SetExpression(text); err != nil {
		c := c03ErrCode(err)
		if c == 99 {
			return sx.L(sx.I(1), sx.I(c)), "rejected without a known error code: " + err.Error()
		}
		return sx.L(sx.I(1), sx.I(c)), ""
	}
	vars := variables.NewVariableCollection()
	for _, b := range sx.AsList(e[2]) {
		bb := sx.AsList(b)
		vars.Add(variables.NewVariable(sx.AsString(bb[0]), valFromSX(bb[1])))
	}
	calc.SetVariantOperations(newManager(safe))
	res, err := calc.EvaluateUsingVariables(vars)
	// the same values handed over the way a host program does - through the generic constructor, from the host's own
	// number types (int32, uint32, uint, float32, ...): the evaluation ends the same way
	{
		vars2 := variables.NewVariableCollection()
		for _, v := range vars.GetAll() {
			val := v.Value()
			switch val.Type() {
			case variants.Integer:
				if x := val.AsInteger(); int(int32(x)) == x {
					val = variants.NewVariant(int32(x))
				} else {
					val = variants.NewVariant(x)
				}
			case variants.Long:
				if x := val.AsLong(); x >= 0 && x <= math.MaxUint32 {
					val = variants.NewVariant(uint32(x))
				} else if x >= 0 {
					val = variants.NewVariant(uint(x))
				} else {
					val = variants.NewVariant(x)
				}
			case variants.Float:
				val = variants.NewVariant(val.AsFloat())
			case variants.Double:
				val = variants.NewVariant(val.AsDouble())
			case variants.String:
				val = variants.NewVariant(val.AsString())
			case variants.Boolean:
				val = variants.NewVariant(val.AsBoolean())
			case variants.TimeSpan:
				val = variants.NewVariant(val.AsTimeSpan())
			case variants.DateTime:
				val = variants.NewVariant(val.AsDateTime())
			case variants.Array:
				val = variants.NewVariant(val.AsArray())
			}
			vars2.Add(variables.NewVariable(v.Name(), val))
		}
		r2, e2 := calc.EvaluateUsingVariables(vars2)
		o1, _ := resSX(res, err)
		o2, _ := resSX(r2, e2)
		if (r2 == nil) == (e2 == nil) {
			return sx.L(sx.I(-995)), "with the variable values built by NewVariant from host values, Evaluate returned both or neither of a result and an error"
		}
		if (err == nil) != (e2 == nil) || (err == nil && sx.Text(o1) != sx.Text(o2)) {
			return sx.L(sx.I(-995)), fmt.Sprintf("with the variable values built by NewVariant from host values of the same types, Evaluate gives %s (%v) instead of %s (%v)", sx.Text(o2), e2, sx.Text(o1), err)
		}
	}
	// the same collection after variables were taken out of it, from the end and from the front, then put back: every
	// evaluation still ends with exactly one of a result and an error (a panic is caught by the driver and reported)
	again := func(what string) string {
		r2, e2 := calc.EvaluateUsingVariables(vars)
		if (r2 == nil) == (e2 == nil) {
			return "after " + what + ", Evaluate returned both or neither of a result and an error"
		}
		return ""
	}
	if all := vars.GetAll(); len(all) > 0 {
		last, first := all[len(all)-1], all[0]
		vars.RemoveByName(last.Name())
		if f := again("RemoveByName of the last variable"); f != "" {
			return sx.L(sx.I(-995)), f
		}
		vars.FindByName(first.Name())
		vars.RemoveByName(first.Name())
		if f := again("RemoveByName of the first variable"); f != "" {
			return sx.L(sx.I(-995)), f
		}
		vars.Add(first)
		vars.Add(last)
		if f := again("adding the variables again"); f != "" {
			return sx.L(sx.I(-995)), f
		}
		vars.Clear()
		if f := again("Clear"); f != "" {
			return sx.L(sx.I(-995)), f
		}
		vars.Add(first)
		vars.Add(last)
		vars.ClearValues()
		if f := again("ClearValues"); f != "" {
			return sx.L(sx.I(-995)), f
		}
	}
	// the calculator's own default variables with their values cleared
	calc.DefaultVariables().ClearValues()
	if r3, e3 := calc.Evaluate(); (r3 == nil) == (e3 == nil) {
		return sx.L(sx.I(-995)), "after ClearValues on the default variables, Evaluate returned both or neither of a result and an error"
	}
	switch {
	case err != nil && res != nil:
		return sx.L(sx.I(-997)), "Evaluate returned both a result and an error"
	case err != nil:
		return sx.L(sx.I(1), sx.I(c03ErrCode(err))), ""
	case res == nil:
		return sx.L(sx.I(-996)), "Evaluate returned neither a result nor an error"
	}
	return sx.L(sx.I(0), valSX(res)), ""
}

// runC03Template: a template object that was used and cleared before, automatic variables on (the default)
func runC03Template(in sx.SX) (sx.SX, string) {
	l := sx.AsList(in)
	text := sx.AsString(l[0])
	vars := map[string]string{}
	for _, b := range sx.AsList(l[2]) {
		bb := sx.AsList(b)
		vars[sx.AsString(bb[0])] = sx.AsString(bb[1])
	}
	t := mustache.NewMustacheTemplate()
	t.SetTemplate("warm {{up}}")
	t.Clear()
	if err := t.SetTemplate(text); err != nil {
		c, ok := mErrCodes[codeOf(err)]
		if !ok {
			return sx.L(sx.I(1), sx.I(99)), "rejected without a known error code: " + err.Error()
		}
		return sx.L(sx.I(1), sx.I(c)), ""
	}
	var names sx.List
	for _, n := range mparsersNames(text) {
		names = append(names, sx.S(n))
	}
	out, err := t.EvaluateWithVariables(vars)
	if err != nil {
		return sx.L(sx.I(1), sx.I(98)), "rendering failed: " + err.Error()
	}
	if _, err2 := t.Evaluate(); err2 != nil {
		return sx.L(sx.I(1), sx.I(98)), "rendering with the automatic variables failed: " + err2.Error()
	}
	// a template object whose default variables were set to the nil map (Go's zero value for "no variables")
	t2 := mustache.NewMustacheTemplate()
	t2.SetDefaultVariables(nil)
	if err := t2.SetTemplate(text); err != nil {
		return sx.L(sx.I(1), sx.I(98)), "accepted by one template object, rejected by one with nil default variables: " + err.Error()
	}
	if out2, err2 := t2.EvaluateWithVariables(vars); err2 != nil || out2 != out {
		return sx.L(sx.I(1), sx.I(98)), "a template object with nil default variables renders differently"
	}
	if _, err2 := t2.Evaluate(); err2 != nil {
		return sx.L(sx.I(1), sx.I(98)), "rendering with nil default variables failed: " + err2.Error()
	}
	return sx.L(sx.I(0), sx.S(out), names), ""
}

// c03Oracle evaluates the expression once more with the spying manager and function collection, and lists the host
// answers for every value that passed through them.
// set by c03Oracle when the expression builds a date-time outside the modelled range
var c03FarDate bool

func c03Oracle(text string, env sx.SX, safe bool) (out sx.SX) {
	c03FarDate = false
	var orc sx.List
	out = sx.L()
	defer func() {
		if recover() != nil {
			out = orc
			if orc == nil {
				out = sx.L()
			}
		}
	}()
	calc := calculator.NewExpressionCalculator()
	calc.SetAutoVariables(false)
	if calc.SetExpression(text) != nil {
		return sx.L()
	}
	var seen []*variants.Variant
	var pows [][2]*variants.Variant
	var calls []spyCall
	vars := variables.NewVariableCollection()
	for _, b := range sx.AsList(env) {
		bb := sx.AsList(b)
		v := valFromSX(bb[1])
		vars.Add(variables.NewVariable(sx.AsString(bb[0]), v))
		seen = append(seen, v)
	}
	calc.SetVariantOperations(spyOps{newManager(safe), &seen, &pows})
	func() {
		defer func() { recover() }()
		calc.EvaluateUsingVariablesAndFunctions(vars, spyFuncs{functions.NewDefaultFunctionCollection(), &calls})
	}()
	done := map[string]bool{}
	for _, v := range seen {
		oracleFor(v, &orc, done)
	}
	for _, p := range pows {
		powOracle(p[0], p[1], &orc)
	}
	for _, c := range calls {
		for _, a := range c.args {
			oracleFor(a, &orc, done)
		}
		fnOracleWith(c.name, c.args, &orc, newManager(safe))
		if strings.EqualFold(c.name, "Date") && len(c.args) >= 2 && len(c.args) <= 7 {
			if d, ok := dateComponents(c.args, newManager(safe)); ok {
				for i, x := range d {
					if x > 10000 || x < -10000 || (i == 0 && (x > 9999 || x < -9999)) {
						c03FarDate = true // date-times far from the epoch overflow time.Time itself: outside the model (DESIGN.md 4.3)
					}
				}
			}
		}
		if strings.EqualFold(c.name, "Date") && len(c.args) == 1 {
			if v, err := newManager(safe).Convert(c.args[0], variants.Long); err == nil && v != nil && (v.AsLong() > 1<<40 || v.AsLong() < -(1<<40)) {
				c03FarDate = true
			}
		}
	}
	if orc == nil {
		return sx.L()
	}
	return orc
}

// probeK2: a million nested parentheses exceed the goroutine stack of the recursive-descent parser (known finding K2).
func probeK2() string {
	cmd := exec.Command(os.Args[0], "-k2")
	out, err := cmd.CombinedOutput()
	if err != nil && strings.Contains(string(out), "stack overflow") {
		return "[K2] SetExpression('(' x 1,000,000 + '1' + ')' x 1,000,000) dies with fatal error: stack overflow"
	}
	if err != nil {
		return "the deep-nesting probe failed differently: " + err.Error()
	}
	return ""
}

func k2Child() {
	s := strings.Repeat("(", 1000000) + "1" + strings.Repeat(")", 1000000)
	calc := calculator.NewExpressionCalculator()
	err := calc.SetExpression(s)
	fmt.Println("k2 child finished:", err)
}
