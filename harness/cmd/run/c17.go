package main

import (
	"fmt"
	"hash/fnv"
	"strings"

	"harness/sx"

	sio "github.com/pip-services3-gox/pip-services3-expressions-gox/io"
	"github.com/pip-services3-gox/pip-services3-expressions-gox/tokenizers/generic"
	"github.com/pip-services3-gox/pip-services3-expressions-gox/tokenizers/utilities"
)

// C17 — character-class maps.
// input  = (ops probes); op = (0 start stop ref) | (1 ref) | (2); ref 0 = nil reference, 1 = A, 2 = B, 3 = C
// output = (status (lookup ...)); status 1 = the history panicked
var c17refs = []any{nil, "A", "B", "C"}

func init() {
	register(&Prop{
		ID:   "C17",
		Rule: "histories of AddInterval/AddDefaultInterval/Clear with endpoints from {0,'a',0xFF,0x100,0x101,0x2000,0xFFFE,0xFFFF} and their neighbours, references {A,B,C,nil}; exhaustive histories of length<=2 (quick) / <=3 (thorough) over the boundary endpoints probed at all boundary points and neighbours, plus random histories of length<=8; non-trivial = at least two registrations with overlapping ranges or a Clear after a registration; distinct by input hash",
		Gen:  genC17,
		Run:  runC17,
		Human: func(in sx.SX) string {
			l := sx.AsList(in)
			var ops []string
			for _, o := range sx.AsList(l[0]) {
				oo := sx.AsList(o)
				switch sx.AsInt(oo[0]) {
				case 0:
					ops = append(ops, fmt.Sprintf("AddInterval(%#x,%#x,%v)", sx.AsInt(oo[1]), sx.AsInt(oo[2]), c17refs[sx.AsInt(oo[3])]))
				case 1:
					ops = append(ops, fmt.Sprintf("AddDefaultInterval(%v)", c17refs[sx.AsInt(oo[1])]))
				default:
					ops = append(ops, "Clear()")
				}
			}
			var pr []string
			for _, p := range sx.AsList(l[1]) {
				pr = append(pr, fmt.Sprintf("%#x", sx.AsInt(p)))
			}
			return strings.Join(ops, "; ") + " ; Lookup at " + strings.Join(pr, ",")
		},
	})
}

func c17Nontrivial(ops []sx.SX) bool {
	type iv struct{ a, b int64 }
	var regs []iv
	for _, o := range ops {
		oo := sx.AsList(o)
		switch sx.AsInt(oo[0]) {
		case 0:
			n := iv{sx.AsInt(oo[1]), sx.AsInt(oo[2])}
			for _, r := range regs {
				if n.a <= r.b && r.a <= n.b {
					return true
				}
			}
			regs = append(regs, n)
		case 1:
			if len(regs) > 0 {
				return true
			}
			regs = append(regs, iv{0, 0xfffe})
		default:
			if len(regs) > 0 {
				return true
			}
		}
	}
	return false
}

func genC17(ctx *Ctx) {
	bounds := []int64{0, 'a', 0xFF, 0x100, 0x101, 0x2000, 0xFFFE}
	var probes sx.List
	seen := map[int64]bool{}
	for _, b := range append(append([]int64{}, bounds...), 0xFFFF, 0x10000, 0x1F600, 0xD800, 0xDBFF, 0xDFFF) { // (the surrogate block lies inside the configurable range: a map is a map of code points)
		for _, d := range []int64{-1, 0, 1} {
			if !seen[b+d] {
				seen[b+d] = true
				probes = append(probes, sx.I(b+d))
			}
		}
	}
	// all single operations over the boundary set
	var single []sx.SX
	for i, a := range bounds {
		for _, b := range bounds[i:] {
			for r := int64(0); r < 3; r++ {
				single = append(single, sx.L(sx.I(0), sx.I(a), sx.I(b), sx.I(r)))
			}
		}
	}
	for r := int64(0); r < 3; r++ {
		single = append(single, sx.L(sx.I(1), sx.I(r)))
	}
	single = append(single, sx.L(sx.I(2)))
	depth := 2
	if ctx.Thorough {
		depth = 3
	}
	var rec func(cur []sx.SX, k int)
	rec = func(cur []sx.SX, k int) {
		if len(cur) > 0 {
			ctx.Count(fmt.Sprintf("exhaustive-len:%d", len(cur)))
			ctx.Input(sx.L(sx.List(append([]sx.SX{}, cur...)), probes), c17Nontrivial(cur))
		}
		if k == 0 {
			return
		}
		for i, o := range single {
			// thorough depth 3: thin the first level to keep the run in minutes (every 3rd op), deeper levels complete
			if depth == 3 && len(cur) == 0 && i%3 != 0 {
				continue
			}
			rec(append(cur, o), k-1)
		}
	}
	rec(nil, depth)
	// clear and rebuild: k registrations, Clear, k registrations again (other ranges, other references)
	hi := []int64{0xFF, 0x100, 0x101, 0x2000, 0xFFFE}
	for k := 1; k <= 3; k++ {
		for rep := 0; rep < 6; rep++ {
			var ops []sx.SX
			for round := 0; round < 2; round++ {
				for x := 0; x < k; x++ {
					a, b := hi[ctx.Rnd.Intn(len(hi))], hi[ctx.Rnd.Intn(len(hi))]
					if a > b {
						a, b = b, a
					}
					ops = append(ops, sx.L(sx.I(0), sx.I(a), sx.I(b), sx.I(int64(ctx.Rnd.Intn(4)))))
				}
				if round == 0 {
					ops = append(ops, sx.L(sx.I(2)))
				}
			}
			ctx.Count("clear-and-rebuild")
			ctx.Input(sx.L(sx.List(ops), probes), true)
		}
	}
	// long histories: 66 .. 130 registrations above and across U+00FF (single characters and small ranges, references and
	// un-registrations by nil over an older covering range), probed at the registered characters
	for rep := 0; rep < 6; rep++ {
		n := 66 + rep*13
		var ops []sx.SX
		var pr sx.List
		ops = append(ops, sx.L(sx.I(1), sx.I(1)))
		if rep%2 == 1 {
			ops = append(ops, sx.L(sx.I(0), sx.I(0x2000), sx.I(0x4000), sx.I(2)))
		}
		for i := 0; i < n; i++ {
			c := int64(0x3000 + i*3)
			if i%7 == 0 {
				c = int64(0xF0 + i) // across the U+00FF boundary
			}
			w := int64(ctx.Rnd.Intn(3))
			ops = append(ops, sx.L(sx.I(0), sx.I(c), sx.I(c+w), sx.I(int64([]int{0, 2, 3, 0, 1}[i%5]))))
			if i%4 == 0 || i > n-4 {
				pr = append(pr, sx.I(c), sx.I(c+w+1))
			}
		}
		pr = append(pr, sx.I(0x2fff), sx.I(0xff), sx.I(0x100), sx.I(0xfffe))
		ctx.Count("long-history")
		ctx.Input(sx.L(sx.List(ops), pr), true)
	}
	// random histories, endpoints near the boundaries, including panicking ones (start > end, ranges above U+FFFE)
	ends := []int64{0, 1, 'a', 'z', 0xFE, 0xFF, 0x100, 0x101, 0x1FFF, 0x2000, 0x2001, 0xFFFD, 0xFFFE, 0xFFFF}
	for i := 0; i < ctx.N; i++ {
		n := 1 + ctx.Rnd.Intn(8)
		ops := make([]sx.SX, 0, n)
		for k := 0; k < n; k++ {
			switch r := ctx.Rnd.Intn(12); {
			case r < 9:
				a, b := ends[ctx.Rnd.Intn(len(ends))], ends[ctx.Rnd.Intn(len(ends))]
				if a > b && ctx.Rnd.Intn(20) > 0 {
					a, b = b, a
				}
				ops = append(ops, sx.L(sx.I(0), sx.I(a), sx.I(b), sx.I(int64(ctx.Rnd.Intn(4)))))
				ctx.Count("op:add")
			case r < 11:
				ops = append(ops, sx.L(sx.I(1), sx.I(int64(ctx.Rnd.Intn(4)))))
				ctx.Count("op:default")
			default:
				ops = append(ops, sx.L(sx.I(2)))
				ctx.Count("op:clear")
			}
		}
		ctx.Input(sx.L(sx.List(ops), probes), c17Nontrivial(ops))
	}
}

func runC17(in sx.SX) (obs sx.SX, fail string) {
	l := sx.AsList(in)
	m := utilities.NewCharReferenceMap()
	type reg struct {
		a, b int64
		ref  int64
	}
	var hist []reg // since the last Clear
	panicked := false
	func() {
		defer func() {
			if r := recover(); r != nil {
				panicked = true
			}
		}()
		for _, o := range sx.AsList(l[0]) {
			oo := sx.AsList(o)
			switch sx.AsInt(oo[0]) {
			case 0:
				a, b, r := sx.AsInt(oo[1]), sx.AsInt(oo[2]), sx.AsInt(oo[3])
				m.AddInterval(rune(a), rune(b), c17refs[r])
				if b >= 0xffff {
					b = 0xfffe
				}
				hist = append(hist, reg{a, b, r})
			case 1:
				r := sx.AsInt(oo[1])
				m.AddDefaultInterval(c17refs[r])
				hist = append(hist, reg{0, 0xfffe, r})
			default:
				m.Clear()
				hist = nil
			}
		}
	}()
	if panicked {
		// a history may only panic on start > end or on a range that lies wholly above U+FFFE
		legit := false
		for _, o := range sx.AsList(l[0]) {
			oo := sx.AsList(o)
			if sx.AsInt(oo[0]) == 0 && (sx.AsInt(oo[1]) > sx.AsInt(oo[2]) || sx.AsInt(oo[1]) > 0xfffe) {
				legit = true
			}
		}
		if !legit {
			fail = "a history of well-formed registrations panicked"
		}
		return sx.L(sx.I(1), sx.L()), fail
	}
	var out sx.List
	for _, p := range sx.AsList(l[1]) {
		c := sx.AsInt(p)
		got := m.Lookup(rune(c))
		code := int64(-1)
		for i, r := range c17refs {
			if got == r {
				code = int64(i)
			}
		}
		// direct oracle: scan the registrations backwards
		want := int64(0)
		if c >= 0 && c <= 0xfffe {
			for i := len(hist) - 1; i >= 0; i-- {
				if hist[i].a <= c && c <= hist[i].b {
					want = hist[i].ref
					break
				}
			}
		}
		if code != want && fail == "" {
			fail = fmt.Sprintf("Lookup(%#x) returned %v, the most recent covering registration carries %v", c, got, c17refs[want])
		}
		out = append(out, sx.I(code))
	}
	// lookups interleaved with the registrations: after every step every probe answers for the history so far
	if fail == "" {
		m2 := utilities.NewCharReferenceMap()
		var h2 []reg
		func() {
			defer func() { recover() }()
			for step, o := range sx.AsList(l[0]) {
				oo := sx.AsList(o)
				switch sx.AsInt(oo[0]) {
				case 0:
					a, b, r := sx.AsInt(oo[1]), sx.AsInt(oo[2]), sx.AsInt(oo[3])
					m2.AddInterval(rune(a), rune(b), c17refs[r])
					if b >= 0xffff {
						b = 0xfffe
					}
					h2 = append(h2, reg{a, b, r})
				case 1:
					r := sx.AsInt(oo[1])
					m2.AddDefaultInterval(c17refs[r])
					h2 = append(h2, reg{0, 0xfffe, r})
				default:
					m2.Clear()
					h2 = nil
				}
				for _, p := range sx.AsList(l[1]) {
					c := sx.AsInt(p)
					want := int64(0)
					if c >= 0 && c <= 0xfffe {
						for i := len(h2) - 1; i >= 0; i-- {
							if h2[i].a <= c && c <= h2[i].b {
								want = h2[i].ref
								break
							}
						}
					}
					if got := m2.Lookup(rune(c)); got != c17refs[want] && fail == "" {
						fail = fmt.Sprintf("after step %d of the history (lookups after every step), Lookup(%#x) returned %v, the most recent covering registration carries %v", step, c, got, c17refs[want])
					}
				}
			}
		}()
	}
	// one character looked up again and again while the map is reconfigured: for each probe, the history is replayed with
	// lookups of that probe alone (twice in a row) under several schedules - after every step; only right before each
	// Clear and at the end; after the steps selected by two masks derived from the input - so that whatever the map
	// remembers from its last lookup meets every kind of reconfiguration in between
	if fail == "" {
		ops := sx.AsList(l[0])
		hh := fnv.New32a()
		hh.Write([]byte(sx.Text(in)))
		seedMask := hh.Sum32()
		for pi, p := range sx.AsList(l[1]) {
			c := sx.AsInt(p)
			for sched := 0; sched < 4; sched++ {
				m3 := utilities.NewCharReferenceMap()
				var h3 []reg
				func() {
					defer func() { recover() }()
					m3.Lookup(rune(c))
					for step, o := range ops {
						oo := sx.AsList(o)
						switch sx.AsInt(oo[0]) {
						case 0:
							a, b, r := sx.AsInt(oo[1]), sx.AsInt(oo[2]), sx.AsInt(oo[3])
							m3.AddInterval(rune(a), rune(b), c17refs[r])
							if b >= 0xffff {
								b = 0xfffe
							}
							h3 = append(h3, reg{a, b, r})
						case 1:
							r := sx.AsInt(oo[1])
							m3.AddDefaultInterval(c17refs[r])
							h3 = append(h3, reg{0, 0xfffe, r})
						default:
							m3.Clear()
							h3 = nil
						}
						look := true
						switch sched {
						case 1:
							look = step == len(ops)-1 || sx.AsInt(sx.AsList(ops[step+1])[0]) == 2
						case 2, 3:
							look = step == len(ops)-1 || (seedMask>>(uint(step+pi+sched*7)%31))&1 == 1
						}
						if !look {
							continue
						}
						want := int64(0)
						if c >= 0 && c <= 0xfffe {
							for i := len(h3) - 1; i >= 0; i-- {
								if h3[i].a <= c && c <= h3[i].b {
									want = h3[i].ref
									break
								}
							}
						}
						for rep := 0; rep < 2; rep++ {
							if got := m3.Lookup(rune(c)); got != c17refs[want] && fail == "" {
								fail = fmt.Sprintf("with Lookup(%#x) as the only lookup (schedule %d): after step %d it returned %v, the most recent covering registration carries %v", c, sched, step, got, c17refs[want])
							}
						}
					}
				}()
			}
		}
	}
	// "a tokenizer hands every character of a configured range to the configured state, and disabling a range really
	// disables it": the same history replayed on the word and whitespace states (reference = enabled, nil = disabled)
	if fail == "" {
		ws := generic.NewGenericWhitespaceState()
		wd := generic.NewGenericWordState()
		ws.ClearWhitespaceChars()
		wd.ClearWordChars()
		statePanic := false
		func() {
			defer func() {
				if recover() != nil {
					statePanic = true
				}
			}()
			for _, o := range sx.AsList(l[0]) {
				oo := sx.AsList(o)
				switch sx.AsInt(oo[0]) {
				case 0:
					a, b, r := rune(sx.AsInt(oo[1])), rune(sx.AsInt(oo[2])), sx.AsInt(oo[3]) != 0
					ws.SetWhitespaceChars(a, b, r)
					wd.SetWordChars(a, b, r)
				case 1:
					r := sx.AsInt(oo[1]) != 0
					ws.SetWhitespaceChars(0, 0xfffe, r)
					wd.SetWordChars(0, 0xfffe, r)
				default:
					ws.ClearWhitespaceChars()
					wd.ClearWordChars()
				}
			}
		}()
		for _, p := range sx.AsList(l[1]) {
			c := sx.AsInt(p)
			if statePanic || fail != "" || c < 0 || c > 0xfffe || (c >= 0xd800 && c <= 0xdfff) {
				continue
			}
			enabled := false
			for i := len(hist) - 1; i >= 0; i-- {
				if hist[i].a <= c && c <= hist[i].b {
					enabled = hist[i].ref != 0
					break
				}
			}
			text := string(rune(c)) + string(rune(c))
			want := ""
			if enabled {
				want = text
			}
			if got := ws.NextToken(sio.NewStringScanner(text), nil).Value(); got != want {
				fail = fmt.Sprintf("whitespace state configured by the same history (enabled at %#x: %v) read %s from %s", c, enabled, sx.Quote(got), sx.Quote(text))
			} else if got := wd.NextToken(sio.NewStringScanner(text), nil).Value(); got != want {
				fail = fmt.Sprintf("word state configured by the same history (enabled at %#x: %v) read %s from %s", c, enabled, sx.Quote(got), sx.Quote(text))
			}
		}
	}
	return sx.L(sx.I(0), out), fail
}
