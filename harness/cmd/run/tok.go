package main

// Tokenizer properties C04 (lossless), C15 (options only drop or rewrite whole tokens), C12 (positions).
// One case = (tokenizer, option bits, text, csv configuration); the observable is the complete token list
// (type, value, line, column), which the Coq model of the tokenizer must reproduce.

import (
	"fmt"
	"math/rand"
	"strings"
	"sync"

	"harness/sx"

	ctok "github.com/pip-services3-gox/pip-services3-expressions-gox/calculator/tokenizers"
	"github.com/pip-services3-gox/pip-services3-expressions-gox/csv"
	sio "github.com/pip-services3-gox/pip-services3-expressions-gox/io"
	mtok "github.com/pip-services3-gox/pip-services3-expressions-gox/mustache/tokenizers"
	"github.com/pip-services3-gox/pip-services3-expressions-gox/tokenizers"
	"github.com/pip-services3-gox/pip-services3-expressions-gox/tokenizers/generic"
)

var tokNames = []string{"generic", "expression", "csv", "mustache"}

func newTokenizer(kind int, cfg sx.SX) tokenizers.ITokenizer {
	switch kind {
	case 0:
		return generic.NewGenericTokenizer()
	case 1:
		return ctok.NewExpressionTokenizer()
	case 2:
		t := csv.NewCsvTokenizer()
		l := sx.AsList(cfg)
		if len(l) >= 3 {
			// the configuration is given as a history of setter calls (CsvObject.v runs the same history): every call is
			// made, a refused one (panic) leaves the object as it was; arguments are slices with spare capacity
			for _, c := range sx.AsList(l[2]) {
				cc := sx.AsList(c)
				chars := sx.AsRunes(cc[1])
				arg := append(make([]rune, 0, len(chars)+3), chars...)
				func() {
					defer func() { recover() }()
					if sx.AsInt(cc[0]) == 0 {
						t.SetFieldSeparators(arg)
					} else {
						t.SetQuoteSymbols(arg)
					}
				}()
			}
			return t
		}
		// set quotes first when they would collide with the default separator, and vice versa
		seps, quotes := sx.AsRunes(l[0]), sx.AsRunes(l[1])
		// the caller's two lists are slices of one array (the separators have spare capacity that holds the quotes): a
		// tokenizer that appends to what it was given would overwrite the caller's quote symbols
		pool := append(append(make([]rune, 0, len(seps)+len(quotes)+2), seps...), quotes...)
		seps, quotes = pool[:len(seps)], pool[len(seps):]
		collides := false
		for _, s := range seps {
			collides = collides || s == '"'
		}
		if !collides {
			t.SetFieldSeparators(seps)
		}
		t.SetFieldSeparators([]rune{0x1})
		t.SetQuoteSymbols(quotes)
		t.SetFieldSeparators(seps)
		// a rejected configuration call leaves no trace: an invalid separator list is refused (panic), then the quotes
		// are set once more, which rebuilds the states from the configuration the tokenizer holds
		func() {
			defer func() { recover() }()
			t.SetFieldSeparators([]rune{'\n'})
		}()
		func() {
			defer func() { recover() }()
			t.SetQuoteSymbols([]rune{'\r'})
		}()
		t.SetQuoteSymbols(quotes)
		return t
	default:
		return mtok.NewMustacheTokenizer()
	}
}

func setOptions(t tokenizers.ITokenizer, bits int) {
	t.SetSkipUnknown(bits&1 != 0)
	t.SetSkipWhitespaces(bits&2 != 0)
	t.SetSkipComments(bits&4 != 0)
	t.SetSkipEof(bits&8 != 0)
	t.SetMergeWhitespaces(bits&16 != 0)
	t.SetUnifyNumbers(bits&32 != 0)
	t.SetDecodeStrings(bits&64 != 0)
}

func tokensSX(ts []*tokenizers.Token) sx.SX {
	var out sx.List
	for _, t := range ts {
		out = append(out, sx.L(sx.N(t.Type()), sx.S(t.Value()), sx.N(t.Line()), sx.N(t.Column())))
	}
	return out
}

func tokInput(kind, bits int, text []rune, cfg sx.SX) sx.SX {
	return sx.L(sx.N(kind), sx.N(bits), sx.R(text), cfg)
}

var defaultCsvCfg = sx.L(sx.R([]rune{','}), sx.R([]rune{'"'}))

func tokHuman(in sx.SX) string {
	l := sx.AsList(in)
	k := int(sx.AsInt(l[0]))
	s := fmt.Sprintf("%s tokenizer, options %07b, TokenizeBuffer(%s)", tokNames[k], sx.AsInt(l[1]), sx.Quote(sx.AsString(l[2])))
	if k == 2 {
		c := sx.AsList(l[3])
		s += fmt.Sprintf(" separators %s quotes %s", sx.Quote(sx.AsString(c[0])), sx.Quote(sx.AsString(c[1])))
	}
	return s
}

type charStater interface {
	GetCharacterState(symbol rune) tokenizers.ITokenizerState
}

type expTok struct {
	typ    int
	value  string
	offset int // rune offset of the first character in the text
}

// refDecode: what decoding a quoted token means, written out independently of the library's quote states: the
// enclosing pair of quote characters is dropped; the expression and CSV states also turn doubled quotes into one
func refDecode(val string, q rune, doubled bool) string {
	r := []rune(val)
	if len(r) < 2 || r[0] != q || r[len(r)-1] != q {
		return val
	}
	inner := r[1 : len(r)-1]
	if !doubled {
		return string(inner)
	}
	var out []rune
	for i := 0; i < len(inner); i++ {
		out = append(out, inner[i])
		if inner[i] == q && i+1 < len(inner) && inner[i+1] == q {
			i++
		}
	}
	return string(out)
}

// postOracle recomputes, from the option-free token stream, what the property says the stream under the given
// options must be: whole tokens removed or rewritten, never re-segmented.
func postOracle(t tokenizers.ITokenizer, raw []*tokenizers.Token, bits int) []expTok {
	var out []expTok
	off := 0
	lastWs := false
	for _, r := range raw {
		start := off
		off += len([]rune(r.Value()))
		typ, val := r.Type(), r.Value()
		if typ == tokenizers.Eof {
			if bits&8 != 0 {
				continue
			}
			out = append(out, expTok{typ, val, start})
			continue
		}
		if typ == tokenizers.Unknown && bits&1 != 0 {
			continue
		}
		first := []rune(val)[0]
		if _, isQuote := t.(charStater).GetCharacterState(first).(tokenizers.IQuoteState); isQuote && typ != tokenizers.Special && bits&64 != 0 {
			_, plain := t.QuoteState().(*generic.GenericQuoteState)
			val = refDecode(val, first, !plain)
		}
		if typ == tokenizers.Comment && bits&4 != 0 {
			continue
		}
		if typ == tokenizers.Whitespace && lastWs && bits&2 != 0 {
			continue
		}
		if typ == tokenizers.Whitespace && bits&16 != 0 {
			val = " "
		}
		if bits&32 != 0 && (typ == tokenizers.Integer || typ == tokenizers.Float || typ == tokenizers.HexDecimal) {
			typ = tokenizers.Number
		}
		out = append(out, expTok{typ, val, start})
		lastWs = typ == tokenizers.Whitespace
	}
	return out
}

func runTok(which string) func(in sx.SX) (sx.SX, string) {
	return func(in sx.SX) (sx.SX, string) {
		l := sx.AsList(in)
		kind, bits, text := int(sx.AsInt(l[0])), int(sx.AsInt(l[1])), sx.AsString(l[2])
		t := newTokenizer(kind, l[3])
		setOptions(t, bits)
		got := t.TokenizeBuffer(text)
		obs := tokensSX(got)
		fail := ""
		// option-free run on a fresh instance
		t0 := newTokenizer(kind, l[3])
		setOptions(t0, 0)
		raw := t0.TokenizeBuffer(text)
		switch which {
		case "C03":
		case "C04":
			var sb strings.Builder
			for i, r := range raw {
				sb.WriteString(r.Value())
				if r.Value() == "" && !(i == len(raw)-1 && r.Type() == tokenizers.Eof) {
					fail = fmt.Sprintf("token %d is empty", i)
				}
				if r.Type() == tokenizers.Eof && i != len(raw)-1 {
					fail = fmt.Sprintf("an end-of-input token at position %d of %d", i, len(raw))
				}
			}
			if len(raw) == 0 || raw[len(raw)-1].Type() != tokenizers.Eof {
				fail = "the stream does not end with the end-of-input token"
			}
			if sb.String() != text && fail == "" {
				fail = fmt.Sprintf("token values concatenate to %s, not to the input", sx.Quote(sb.String()))
			}
		case "C15", "C12":
			if which == "C12" {
				c12FarOnce.Do(func() { c12Far = probeFarPositions() })
				if c12Far != "" {
					fail = c12Far
					break
				}
			}
			want := postOracle(t0, raw, bits)
			if len(want) != len(got) {
				fail = fmt.Sprintf("%d tokens, the option-free stream post-processed by the options has %d", len(got), len(want))
				if which == "C12" {
					fail = "" // segmentation is C15's business
				}
				break
			}
			rawPos := map[int][2]int{} // offset of a token of the option-free stream -> its line and column
			ro := 0
			for _, r := range raw {
				rawPos[ro] = [2]int{r.Line(), r.Column()}
				ro += len([]rune(r.Value()))
			}
			for i := range want {
				if which == "C15" && (want[i].typ != got[i].Type() || want[i].value != got[i].Value()) {
					fail = fmt.Sprintf("token %d is (%d,%s), the option-free stream post-processed by the options has (%d,%s)", i, got[i].Type(), sx.Quote(got[i].Value()), want[i].typ, sx.Quote(want[i].value))
					break
				}
				// a token that is kept or rewritten stays where the option-free stream has it
				if rp, ok := rawPos[want[i].offset]; which == "C15" && ok && (rp[0] != got[i].Line() || rp[1] != got[i].Column()) {
					fail = fmt.Sprintf("token %d %s is reported at line %d column %d, the option-free stream has the token at that offset at line %d column %d", i, sx.Quote(got[i].Value()), got[i].Line(), got[i].Column(), rp[0], rp[1])
					break
				}
				if which == "C12" {
					sc := sio.NewStringScanner(text)
					for k := 0; k < want[i].offset; k++ {
						sc.Read()
					}
					if sc.PeekLine() != got[i].Line() || sc.PeekColumn() != got[i].Column() {
						fail = fmt.Sprintf("token %d %s reports line %d column %d; its first character (offset %d) is at line %d column %d in a forward scan", i, sx.Quote(got[i].Value()), got[i].Line(), got[i].Column(), want[i].offset, sc.PeekLine(), sc.PeekColumn())
						break
					}
				}
			}
		}
		// the pull interface: the reader is attached first and the options are set afterwards; HasNextToken is polled one to
		// three times before every NextToken - the tokens are those of TokenizeBuffer
		if fail == "" {
			t3 := newTokenizer(kind, l[3])
			setOptions(t3, 0)
			t3.SetReader(sio.NewStringScanner(text))
			setOptions(t3, bits)
			var pulled []*tokenizers.Token
			for i := 0; i <= len(got)+2; i++ {
				has := t3.HasNextToken()
				for k := 0; k < i%3; k++ {
					if t3.HasNextToken() != has && fail == "" {
						fail = fmt.Sprintf("HasNextToken polled twice without a NextToken in between answers %v and then %v (after %d tokens)", has, !has, len(pulled))
					}
				}
				if !has {
					break
				}
				pulled = append(pulled, t3.NextToken())
			}
			if fail == "" && sx.Text(tokensSX(pulled)) != sx.Text(obs) {
				fail = fmt.Sprintf("SetReader, then the options, then HasNextToken/NextToken gives %s, TokenizeBuffer with the same options %s", sx.Text(tokensSX(pulled)), sx.Text(obs))
			}
		}
		// a tokenizer object with a past: an earlier input, an abandoned HasNextToken look-ahead - then the same call
		if fail == "" {
			wkey := fmt.Sprint(kind)
			if kind == 2 {
				wkey += sx.Text(l[3])
			}
			w := warmTok[wkey]
			if w == nil {
				w = newTokenizer(kind, l[3])
				warmTok[wkey] = w
			}
			setOptions(w, bits)
			again := w.TokenizeBuffer(text)
			same := len(again) == len(got)
			for i := 0; same && i < len(got); i++ {
				same = again[i].Type() == got[i].Type() && again[i].Value() == got[i].Value() && again[i].Line() == got[i].Line() && again[i].Column() == got[i].Column()
			}
			if !same {
				fail = fmt.Sprintf("a tokenizer object used before (last input %s, then an abandoned HasNextToken) returns %s for this input, a new one %s", sx.Quote(warmLast[wkey]), sx.Text(tokensSX(again)), sx.Text(obs))
			}
			// leave a look-ahead behind for the next case; also the C12 clause: a scanner that is Reset and tokenized again gives the same positions
			sc := sio.NewStringScanner(text)
			first := w.TokenizeStream(sc)
			sc.Reset()
			second := w.TokenizeStream(sc)
			if fail == "" && sx.Text(tokensSX(first)) != sx.Text(tokensSX(second)) {
				fail = fmt.Sprintf("TokenizeStream of a scanner, Reset(), TokenizeStream again: first %s, then %s", sx.Text(tokensSX(first)), sx.Text(tokensSX(second)))
			}
			// the same scanner object again after a look-ahead: SetReader(s), HasNextToken(), s.Reset(), TokenizeStream(s)
			w.SetReader(sc)
			w.HasNextToken()
			sc.Reset()
			third := w.TokenizeStream(sc)
			if fail == "" && sx.Text(tokensSX(first)) != sx.Text(tokensSX(third)) {
				fail = fmt.Sprintf("SetReader(s), HasNextToken(), s.Reset(), TokenizeStream(s): %s, a plain TokenizeStream gives %s", sx.Text(tokensSX(third)), sx.Text(tokensSX(first)))
			}
			w.SetReader(sio.NewStringScanner(text))
			w.HasNextToken()
			warmLast[wkey] = text
		}
		return obs, fail
	}
}

// probeFarPositions (C12, once per run, outside the model): tokens more than 65535 columns into a line and more than 65535
// lines down report the position a forward scan of a new scanner gives for their first character
var c12FarOnce sync.Once
var c12Far string

func probeFarPositions() string {
	const n = 70000
	texts := map[int][]string{
		0: {strings.Repeat("ab ", n), strings.Repeat("a \n", n), strings.Repeat("x \r\n", n/2) + strings.Repeat("y ", n)},
		1: {strings.Repeat("ab ", n), strings.Repeat("a \n", n)},
		2: {strings.Repeat("ab,", n), strings.Repeat("a,\n", n)},
		3: {strings.Repeat("{{a}} ", n), strings.Repeat("{{a}} \n", n)},
	}
	// two-character line breaks at every alignment with respect to the powers of two up to 8192 (a scanner that
	// remembers positions per block of input meets a break that straddles the block boundary), each followed by a token
	// whose state reads one character too far and puts a line break back
	for off := 0; off < 4; off++ {
		for _, brk := range []string{"\n\r", "\r\n"} {
			texts[0] = append(texts[0], strings.Repeat("x", off)+strings.Repeat("ab"+brk, 2300))
			texts[2] = append(texts[2], strings.Repeat("x", off)+strings.Repeat("ab"+brk, 2300))
		}
	}
	for kind := 0; kind < 4; kind++ {
		for _, text := range texts[kind] {
			t := newTokenizer(kind, defaultCsvCfg)
			setOptions(t, 0)
			sc := sio.NewStringScanner(text)
			for i, tok := range t.TokenizeBuffer(text) {
				if sc.PeekLine() != tok.Line() || sc.PeekColumn() != tok.Column() {
					return fmt.Sprintf("%s tokenizer on a text of %d characters (%s...): token %d %s reports line %d column %d; a forward scan puts its first character at line %d column %d",
						tokNames[kind], len([]rune(text)), sx.Quote(text[:8]), i, sx.Quote(tok.Value()), tok.Line(), tok.Column(), sc.PeekLine(), sc.PeekColumn())
				}
				for range []rune(tok.Value()) {
					sc.Read()
				}
			}
		}
	}
	return ""
}

var warmTok = map[string]tokenizers.ITokenizer{}
var warmLast = map[string]string{}

var tokAlphabet = []rune{'ÿ', 'À', 'Ā', 'a', 'Z', '1', '0', '.', '-', '/', '*', '"', '\'', '<', '>', '=', '!', '{', '}', '#', ',', ' ', '\r', '\n', 'é', '日', '😀', 0xFFFF, '_', '(', '\t', 'e', '+', ';', 0x2028, '\f', 0x85, 0xFEFF}

func tokNontrivial(text []rune) bool {
	classes := map[int]bool{}
	for _, r := range text {
		switch {
		case r >= 'a' && r <= 'z' || r >= 'A' && r <= 'Z' || r == '_':
			classes[0] = true
		case r >= '0' && r <= '9':
			classes[1] = true
		case r == ' ' || r == '\r' || r == '\n' || r == '\t':
			classes[2] = true
		case r == '"' || r == '\'':
			classes[3] = true
		case r > 127:
			classes[4] = true
		default:
			classes[5] = true
		}
	}
	return len(classes) >= 2
}

// csvHistory turns a configuration into a history of setter calls that ends in it: a random prefix of calls - accepted
// ones and ones the tokenizer must refuse (a line break or NUL, a character the other list holds) - and then separators and
// quotes set in an order that is always accepted.
func csvHistory(rnd *rand.Rand, cfg sx.SX) sx.SX {
	l := sx.AsList(cfg)
	seps, quotes := sx.AsRunes(l[0]), sx.AsRunes(l[1])
	pool := []rune{',', ';', '|', '"', '\'', 'é', '日', '\n', '\r', 0, ' ', 'a', 0xFFFE, 'ÿ'}
	pool = append(append(pool, seps...), quotes...)
	var h sx.List
	for n := rnd.Intn(5); n > 0; n-- {
		k := 1 + rnd.Intn(2)
		arg := make([]rune, k)
		for i := range arg {
			arg[i] = pool[rnd.Intn(len(pool))]
		}
		h = append(h, sx.L(sx.N(rnd.Intn(2)), sx.R(arg)))
	}
	h = append(h, sx.L(sx.I(0), sx.R([]rune{0x1})), sx.L(sx.I(1), sx.R(quotes)), sx.L(sx.I(0), sx.R(seps)),
		sx.L(sx.I(0), sx.R([]rune{'\n'})), sx.L(sx.I(1), sx.R(append([]rune{'\r'}, quotes...))), sx.L(sx.I(1), sx.R(seps[:1])), sx.L(sx.I(0), sx.R(quotes[:1])))
	return sx.L(l[0], l[1], h)
}

var csvCfgs = []sx.SX{
	sx.L(sx.R([]rune{','}), sx.R([]rune{'"'})),
	sx.L(sx.R([]rune{';', ','}), sx.R([]rune{'"', '\''})),
	sx.L(sx.R([]rune{'|'}), sx.R([]rune{'\''})),
	sx.L(sx.R([]rune{'日'}), sx.R([]rune{'é'})),
}

func genTok(optionMode string) func(ctx *Ctx) {
	return func(ctx *Ctx) {
		pickBits := func() []int {
			switch optionMode {
			case "none":
				return []int{0}
			case "all":
				if ctx.Thorough {
					out := make([]int, 128)
					for i := range out {
						out[i] = i
					}
					return out
				}
				out := []int{0, 127, 6, 3, 2 | 4 | 64}
				for i := 0; i < 4; i++ {
					out = append(out, ctx.Rnd.Intn(128))
				}
				return out
			}
			return []int{0}
		}
		emit := func(text []rune, tag string) {
			for kind := 0; kind < 4; kind++ {
				cfg := defaultCsvCfg
				if kind == 2 {
					cfg = csvCfgs[ctx.Rnd.Intn(len(csvCfgs))]
					if ctx.Rnd.Intn(2) == 0 {
						cfg = csvHistory(ctx.Rnd, cfg)
					}
				}
				bits := pickBits()
				if ctx.Thorough && optionMode == "all" && !strings.HasPrefix(tag, "exhaustive") {
					// all 128 option sets on the exhaustive short inputs; 16 of them (none, all, 14 drawn) on every other input
					bits = []int{0, 127}
					for i := 0; i < 14; i++ {
						bits = append(bits, ctx.Rnd.Intn(128))
					}
				}
				for _, b := range bits {
					ctx.Count(tag + ":" + tokNames[kind])
					ctx.Input(tokInput(kind, b, text, cfg), tokNontrivial(text))
				}
			}
		}
		depth := 2
		if ctx.Thorough && optionMode == "none" {
			depth = 3
		}
		var rec func(cur []rune, k int)
		rec = func(cur []rune, k int) {
			emit(cur, fmt.Sprintf("exhaustive-len%d", len(cur)))
			if k == 0 {
				return
			}
			for _, c := range tokAlphabet {
				rec(append(append([]rune{}, cur...), c), k-1)
			}
		}
		if optionMode == "none" || ctx.Thorough {
			rec(nil, depth)
		} else {
			rec(nil, 1)
		}
		n := ctx.N
		if optionMode == "all" {
			n = ctx.N / 2
		}
		fragments := []string{"/***/", "/* x **/", "ÿ", "Àÿ", "<=<><=", ">=>>>=", "<<<=<<", "{{{x}}}{{y}}{{{z}}}", " /*c*/ ", " # c\n ", " 😀 ", "\t/**/ ", " \r\n ", "<=", "<>", "{{", "}}", "{{{", "}}}", "/*", "*/", "//", "1.5e+3", "-1", "'a''b'", "\"x\"", "''''", "'''a'", "'a'''", "\"\"\"n\"\"\"", "''''''", "''", "\"\"", "'''", "\"\"\"\"", "AND", "not", "\r\n", "\n\r", "1e", "1.", "-.", "#c", "a-b", "1e5", ".5", "{{#if x}}", "{{/if}}", " \t "}
		// runs of registered multi-character symbols (sibling symbols repeated on one instance)
		syms := []string{"<=", "<>", "<<", ">=", ">>", "!=", "<", ">", "=", "{{", "}}", "{{{", "}}}", "\r\n", "\n\r"}
		for i := 0; i < n/4+8; i++ {
			var sb strings.Builder
			k := 3 + ctx.Rnd.Intn(4)
			for j := 0; j < k; j++ {
				sb.WriteString(syms[ctx.Rnd.Intn(9)])
				if ctx.Rnd.Intn(3) == 0 {
					sb.WriteString([]string{" ", "a", "1"}[ctx.Rnd.Intn(3)])
				}
			}
			emit([]rune(sb.String()), "symbol-run")
		}
		// multi-line texts: several lines of lexemes joined by ONE line-break style (LF, CR, CRLF, LFCR)
		words := []string{"abc", "12", "1.5", "'q'", "<=", "+", "x_1", "#c", "/*c*/", "{{a}}", "\"s\"", "日本", " ", "a,b", ""}
		for i := 0; i < n/4+8; i++ {
			eol := []string{"\n", "\r", "\r\n", "\n\r"}[ctx.Rnd.Intn(4)]
			var sb strings.Builder
			lines := 2 + ctx.Rnd.Intn(4)
			for j := 0; j < lines; j++ {
				if j > 0 {
					sb.WriteString(eol)
				}
				for k := ctx.Rnd.Intn(3); k >= 0; k-- {
					sb.WriteString(words[ctx.Rnd.Intn(len(words))])
					if ctx.Rnd.Intn(2) == 0 {
						sb.WriteString(" ")
					}
				}
			}
			emit([]rune(sb.String()), "multi-line")
		}
		// mixed line-break styles with very short lines (a break two characters after another break, lone CR after LF ...)
		short := []string{"a", "1", "b", "+", "", "ab", "7", " ", "x"}
		brk := []string{"\n", "\r", "\r\n", "\n\r"}
		for i := 0; i < n/4+8; i++ {
			var sb strings.Builder
			lines := 3 + ctx.Rnd.Intn(4)
			for j := 0; j < lines; j++ {
				if j > 0 {
					sb.WriteString(brk[ctx.Rnd.Intn(4)])
				}
				sb.WriteString(short[ctx.Rnd.Intn(len(short))])
			}
			emit([]rune(sb.String()), "mixed-line-breaks")
		}
		for _, a := range brk {
			for _, c := range []string{"a", "1", "+", ""} {
				for _, b := range brk {
					emit([]rune("x"+a+c+b+"y z"), "mixed-line-breaks")
				}
			}
		}
		// a state that puts two characters back (a slash that opens no comment, a sign or a point that starts no number)
		// directly before a line break, on a line opened by each kind of break
		for _, a := range brk {
			for _, pre := range []string{"/", "-", ".", "4 /", "a -", "b ."} {
				for _, b := range brk {
					emit([]rune("1"+a+"* 4 "+pre+b+"2 y"), "mixed-line-breaks")
				}
			}
		}
		// option sweep: a few inputs on which every option has something to do (comments, numbers of both kinds, quoted
		// strings with doubled quotes, unknown characters, whitespace runs, line breaks) under ALL 128 option sets
		if optionMode == "all" && !ctx.Thorough {
			for _, t := range []string{"a  /*c*/ 1.5 'q''r' \n# x\r\nb $", "1 2.0 -3 .5 5. 1e5", "'a' \"b\" '' \"\"\"\" 'é'", "x /* y */ // z\n w", " \t \t", "é 😀 $ \uffff",
				"a,b;\"c,d\"\r\n 7", "{{ a }} {{! c }} t {{{b}}}", "", "a\n\rb \r\n", "-1.5e+3 - 1", "/* never closed 'q",
				// a character no state is registered for, directly after a token that an option drops; at the end of an open tag
				"/* c */😀 x", "a /*c*/\uffff", "# c\n😀", " 😀", "{{😀", "t{{ a \uffff", "{{ a }}😀"} {
				for kind := 0; kind < 4; kind++ {
					cfg := defaultCsvCfg
					if kind == 2 {
						cfg = csvCfgs[ctx.Rnd.Intn(len(csvCfgs))]
					}
					for b := 0; b < 128; b++ {
						ctx.Count("option-sweep:" + tokNames[kind])
						ctx.Input(tokInput(kind, b, []rune(t), cfg), true)
					}
				}
			}
		}
		// scale (direct oracle only): long texts (1000 .. 40000 characters) of random characters and fragments
		if ctx.P.ID == "C04" || ctx.P.ID == "C15" {
			for _, ln := range []int{1000, 4100, 9000, 40000} {
				var text []rune
				for len(text) < ln {
					if ctx.Rnd.Intn(3) == 0 {
						text = append(text, []rune(fragments[ctx.Rnd.Intn(len(fragments))])...)
					} else {
						text = append(text, tokAlphabet[ctx.Rnd.Intn(len(tokAlphabet))])
					}
				}
				for kind := 0; kind < 4; kind++ {
					bits := 0
					if ctx.P.ID == "C15" {
						bits = ctx.Rnd.Intn(128)
					}
					ctx.OracleOnly(tokInput(kind, bits, text, defaultCsvCfg), fmt.Sprintf("scale: a text of %d characters", ln))
				}
			}
		}
		// scale (direct oracle only): more than a thousand tokens in a row that an option drops, and long runs of every kind
		if optionMode == "all" && ctx.P.ID == "C15" {
			for _, t := range []string{strings.Repeat("😀", 1300), strings.Repeat("/*c*/", 1300), "a " + strings.Repeat("#c\n ", 700) + "b", strings.Repeat("\uffff ", 1100) + "x",
				strings.Repeat("/* c */ ", 1100) + "1", strings.Repeat(" \t", 1500) + "a", strings.Repeat("😀/*c*/ ", 600) + "'q'", strings.Repeat("{{!c}}", 1100) + "t", strings.Repeat("1 ", 1100), strings.Repeat("'a' ", 1100)} {
				for kind := 0; kind < 4; kind++ {
					for _, b := range []int{0, 1, 2, 4, 6, 7, 16, 32, 64, 127} {
						ctx.OracleOnly(tokInput(kind, b, []rune(t), defaultCsvCfg), "scale: long runs of droppable tokens")
					}
				}
			}
		}
		for i := 0; i < n; i++ {
			ln := 1 + ctx.Rnd.Intn(14)
			var text []rune
			for len(text) < ln {
				if ctx.Rnd.Intn(4) == 0 {
					text = append(text, []rune(fragments[ctx.Rnd.Intn(len(fragments))])...)
				} else {
					text = append(text, tokAlphabet[ctx.Rnd.Intn(len(tokAlphabet))])
				}
			}
			emit(text, "random")
		}
	}
}

func init() {
	register(&Prop{ID: "C04", Gen: genTok("none"), Run: runTok("C04"), Human: tokHuman,
		Rule: "strings over the alphabet {letters, digits, . - / * \" ' < > = ! { } # , ; space tab CR LF, e-acute, CJK, emoji, U+FFFF, _ ( e +, U+2028, FF, U+0085, U+FEFF}: exhaustive up to length 2 (quick) / 3 (thorough) and random strings up to length ~16 built from characters and multi-character fragments, on the four tokenizers (CSV under four separator/quote configurations) with no option enabled; non-trivial = at least two character classes; distinct by input hash"})
	register(&Prop{ID: "C15", Gen: genTok("all"), Run: runTok("C15"), Human: tokHuman,
		Rule: "the C04 input space x option combinations: quick = {none, all, 3 fixed, 4 random} per input plus 12 option-sensitive inputs under all 128 option sets, thorough = all 128 on every input of length <= 2 over the alphabet and 16 (none, all, 14 drawn) on every other input; the four tokenizers; non-trivial = at least two character classes; distinct by input hash"})
	register(&Prop{ID: "C12", Gen: genTok("all"), Run: runTok("C12"), Human: tokHuman,
		Rule: "the C15 input space (multi-line inputs with every line-break style, tokens of every class at every offset, the four tokenizers, option combinations as in C15); every token position is compared with a forward scan of a fresh scanner; once per run, outside the model, texts of 140,000-280,000 characters (70,000 tokens on one line, 70,000 lines) are tokenized by each tokenizer and every token position is compared with a forward scan; non-trivial = at least two character classes; distinct by input hash"})
}
