package main

import (
	"fmt"
	"hash/fnv"
	"math"
	"math/rand"
	"strconv"
	"strings"

	"harness/sx"

	"github.com/pip-services3-gox/pip-services3-expressions-gox/calculator"
	"github.com/pip-services3-gox/pip-services3-expressions-gox/calculator/functions"
	"github.com/pip-services3-gox/pip-services3-expressions-gox/calculator/parsers"
	"github.com/pip-services3-gox/pip-services3-expressions-gox/calculator/variables"
	"github.com/pip-services3-gox/pip-services3-expressions-gox/variants"
)

// C01 — expression value = value of the syntax tree.
// Symbolic leg: a recording operations manager and a recording function collection (both public extension
// points) make the calculator return the application tree it evaluated; the Coq model computes the same tree.
// Real leg (direct oracle): the generated tree is evaluated directly with the library's own operators and
// functions and compared with Evaluate under several assignments.

type recNode struct {
	call bool
	op   int
	name string
	args []*variants.Variant
}

type recOps struct{}

func rec2(op int, a, b *variants.Variant) (*variants.Variant, error) {
	return variants.VariantFromObject(&recNode{op: op, args: []*variants.Variant{a, b}}), nil
}
func rec1(op int, a *variants.Variant) (*variants.Variant, error) {
	return variants.VariantFromObject(&recNode{op: op, args: []*variants.Variant{a}}), nil
}
func (recOps) Convert(v *variants.Variant, t variants.VariantType) (*variants.Variant, error) {
	return v, nil
}
func (recOps) Add(a, b *variants.Variant) (*variants.Variant, error) { return rec2(parsers.Plus, a, b) }
func (recOps) Sub(a, b *variants.Variant) (*variants.Variant, error) {
	return rec2(parsers.Minus, a, b)
}
func (recOps) Mul(a, b *variants.Variant) (*variants.Variant, error) { return rec2(parsers.Star, a, b) }
func (recOps) Div(a, b *variants.Variant) (*variants.Variant, error) {
	return rec2(parsers.Slash, a, b)
}
func (recOps) Mod(a, b *variants.Variant) (*variants.Variant, error) {
	return rec2(parsers.Procent, a, b)
}
func (recOps) Pow(a, b *variants.Variant) (*variants.Variant, error) {
	return rec2(parsers.Power, a, b)
}
func (recOps) And(a, b *variants.Variant) (*variants.Variant, error) { return rec2(parsers.And, a, b) }
func (recOps) Or(a, b *variants.Variant) (*variants.Variant, error)  { return rec2(parsers.Or, a, b) }
func (recOps) Xor(a, b *variants.Variant) (*variants.Variant, error) { return rec2(parsers.Xor, a, b) }
func (recOps) Lsh(a, b *variants.Variant) (*variants.Variant, error) {
	return rec2(parsers.ShiftLeft, a, b)
}
func (recOps) Rsh(a, b *variants.Variant) (*variants.Variant, error) {
	return rec2(parsers.ShiftRight, a, b)
}
func (recOps) Not(a *variants.Variant) (*variants.Variant, error)      { return rec1(parsers.Not, a) }
func (recOps) Negative(a *variants.Variant) (*variants.Variant, error) { return rec1(parsers.Unary, a) }
func (recOps) Equal(a, b *variants.Variant) (*variants.Variant, error) {
	return rec2(parsers.Equal, a, b)
}
func (recOps) NotEqual(a, b *variants.Variant) (*variants.Variant, error) {
	return rec2(parsers.NotEqual, a, b)
}
func (recOps) More(a, b *variants.Variant) (*variants.Variant, error) {
	return rec2(parsers.More, a, b)
}
func (recOps) Less(a, b *variants.Variant) (*variants.Variant, error) {
	return rec2(parsers.Less, a, b)
}
func (recOps) MoreEqual(a, b *variants.Variant) (*variants.Variant, error) {
	return rec2(parsers.EqualMore, a, b)
}
func (recOps) LessEqual(a, b *variants.Variant) (*variants.Variant, error) {
	return rec2(parsers.EqualLess, a, b)
}
func (recOps) In(a, b *variants.Variant) (*variants.Variant, error) { return rec2(parsers.In, a, b) }
func (recOps) GetElement(a, b *variants.Variant) (*variants.Variant, error) {
	return rec2(parsers.Element, a, b)
}

type recFunc struct{ name string }

func (f recFunc) Name() string { return f.name }
func (f recFunc) Calculate(ps []*variants.Variant, ops variants.IVariantOperations) (*variants.Variant, error) {
	return variants.VariantFromObject(&recNode{call: true, name: f.name, args: append([]*variants.Variant{}, ps...)}), nil
}

// recFuncs knows every name except those starting with "nf"; the name is reported as written in the expression.
type recFuncs struct{}

func (recFuncs) Add(functions.IFunction)         {}
func (recFuncs) Length() int                     { return 0 }
func (recFuncs) Get(int) functions.IFunction     { return nil }
func (recFuncs) GetAll() []functions.IFunction   { return nil }
func (recFuncs) FindIndexByName(name string) int { return -1 }
func (recFuncs) FindByName(name string) functions.IFunction {
	if strings.HasPrefix(name, "nf") {
		return nil
	}
	return recFunc{name}
}
func (recFuncs) Remove(int)          {}
func (recFuncs) RemoveByName(string) {}
func (recFuncs) Clear()              {}

func renderValue(v *variants.Variant) sx.SX {
	if v.Type() == variants.Object {
		if n, ok := v.AsObject().(*recNode); ok {
			var out sx.List
			if n.call {
				out = append(out, sx.I(3), sx.S(n.name))
			} else {
				out = append(out, sx.I(2), sx.N(n.op))
			}
			for _, a := range n.args {
				out = append(out, renderValue(a))
			}
			return out
		}
	}
	t, p := variantPayload(v)
	return sx.L(sx.I(0), sx.N(t), p)
}

func leafVariant(x sx.SX) *variants.Variant {
	l := sx.AsList(x)
	switch variants.VariantType(sx.AsInt(l[1])) {
	case variants.Integer:
		return variants.VariantFromInteger(int(sx.AsInt(l[2])))
	case variants.String:
		return variants.VariantFromString(sx.AsString(l[2]))
	case variants.Boolean:
		return variants.VariantFromBoolean(sx.AsBool(l[2]))
	}
	return variants.EmptyVariant()
}

func init() {
	register(&Prop{
		ID:   "C01",
		Rule: "syntax trees generated from the grammar (depth<=6, every operator, calls with 0..3 arguments, indexing, postfix tests) printed with minimal/random/full parentheses, random spacing, comments and keyword case, evaluated (a) symbolically through a recording operations manager and function collection and (b) with the real operators under three assignments of integer, float, string, boolean, null and array values; plus every token string up to length 3 (quick) / 4 (thorough) over the 29-token vocabulary evaluated symbolically; non-trivial = the tree has at least two operator nodes; distinct by input hash",
		Gen:  genC01,
		Run:  runC01,
		Human: func(in sx.SX) string {
			l := sx.AsList(in)
			var env []string
			for _, b := range sx.AsList(l[2]) {
				bb := sx.AsList(b)
				env = append(env, sx.AsString(bb[0])+"="+sx.Text(bb[1]))
			}
			return "Evaluate(" + sx.Quote(sx.AsString(l[0])) + ") with " + strings.Join(env, " ")
		},
	})
}

func symEnv(rnd *rand.Rand) sx.SX {
	var env sx.List
	for _, n := range []string{"a", "b", "c", "x1", "_y", "q id", "Z", "é1"} {
		var v sx.SX
		switch rnd.Intn(5) {
		case 0:
			v = sx.L(sx.I(0), sx.N(int(variants.Null)), sx.L())
		case 1:
			v = sx.L(sx.I(0), sx.N(int(variants.String)), sx.S("v"+n))
		case 2:
			v = sx.L(sx.I(0), sx.N(int(variants.Boolean)), sx.B(rnd.Intn(2) == 0))
		default:
			v = sx.L(sx.I(0), sx.N(int(variants.Integer)), sx.I(int64(rnd.Intn(100)-10)))
		}
		env = append(env, sx.L(sx.S(n), v))
	}
	return env
}

func countOps(t *Tree) int {
	n := 0
	if t.Kind != "const" && t.Kind != "var" {
		n = 1
	}
	for _, a := range t.Args {
		n += countOps(a)
	}
	return n
}

func genC01(ctx *Ctx) {
	for i := 0; i < ctx.N; i++ {
		t := genTree(ctx.Rnd, 1+ctx.Rnd.Intn(6))
		p := &printer{rnd: ctx.Rnd, parens: ctx.Rnd.Intn(3), noise: ctx.Rnd.Intn(2) == 0}
		text := p.at(t, 0)
		ctx.Count(fmt.Sprintf("tree-parens:%d noise:%v", p.parens, p.noise))
		ctx.Count(fmt.Sprintf("tree-ops:%d", min(countOps(t), 12)))
		ctx.Input(exprInput(text, symEnv(ctx.Rnd), t), countOps(t) >= 2)
	}
	binops := []string{"AND", "OR", "XOR", "=", "<>", "!=", ">", "<", ">=", "<=", "+", "-", "LIKE", "NOT LIKE", "NOT IN", "*", "/", "%", "^", "IN", "<<", ">>"}
	penv := symEnv(ctx.Rnd)
	for _, o1 := range binops {
		for _, o2 := range binops {
			ctx.Count("operator-pair")
			ctx.Input(exprInput("a "+o1+" b "+o2+" c", penv, nil), true)
		}
	}
	// every operator on two variables / one variable, with its tree: the real leg runs these over ALL pairs of values
	for op := range binLevel {
		t := &Tree{Kind: "bin", Op: op, Args: []*Tree{{Kind: "var", Text: "a"}, {Kind: "var", Text: "b"}}}
		p := &printer{rnd: ctx.Rnd, parens: 0}
		ctx.Count("two-variable-operator")
		ctx.Input(exprInput(p.at(t, 0), penv, t), true)
	}
	for _, t := range []*Tree{
		{Kind: "bin", Op: "ELEM", Args: []*Tree{{Kind: "var", Text: "a"}, {Kind: "var", Text: "b"}}},
		{Kind: "un", Op: "NOT", Args: []*Tree{{Kind: "var", Text: "a"}}}, {Kind: "un", Op: "NEG", Args: []*Tree{{Kind: "var", Text: "a"}}},
		{Kind: "un", Op: "ISNULL", Args: []*Tree{{Kind: "var", Text: "a"}}}, {Kind: "un", Op: "ISNOTNULL", Args: []*Tree{{Kind: "var", Text: "a"}}}} {
		p := &printer{rnd: ctx.Rnd, parens: 0}
		ctx.Count("two-variable-operator")
		ctx.Input(exprInput(p.at(t, 0), penv, t), true)
	}
	// every operator inside every bracketing context: as an index expression, as the only and as the second argument of a
	// call, as a parenthesised operand, as the operand of NOT and of a sign - written without redundant parentheses
	{
		v := func(n string) *Tree { return &Tree{Kind: "var", Text: n} }
		var inner []*Tree
		for op := range binLevel {
			inner = append(inner, &Tree{Kind: "bin", Op: op, Args: []*Tree{v("a"), v("b")}})
		}
		for _, op := range []string{"NOT", "NEG", "ISNULL", "ISNOTNULL"} {
			inner = append(inner, &Tree{Kind: "un", Op: op, Args: []*Tree{v("a")}})
		}
		for _, in := range inner {
			for _, t := range []*Tree{
				{Kind: "bin", Op: "ELEM", Args: []*Tree{v("c"), in}},
				{Kind: "call", Text: exprFuncs[0], Args: []*Tree{in}},
				{Kind: "call", Text: exprFuncs[0], Args: []*Tree{v("c"), in}},
				{Kind: "bin", Op: "*", Args: []*Tree{in, v("c")}},
				{Kind: "bin", Op: "^", Args: []*Tree{v("c"), in}},
				{Kind: "un", Op: "NOT", Args: []*Tree{in}},
				{Kind: "un", Op: "NEG", Args: []*Tree{in}},
				{Kind: "un", Op: "ISNULL", Args: []*Tree{in}},
			} {
				p := &printer{rnd: ctx.Rnd, parens: 0}
				ctx.Count("operator-in-context")
				ctx.Input(exprInput(p.at(t, 0), penv, t), true)
			}
		}
	}
	// scale (direct oracle only): deep and long expressions - redundant parentheses, right-nested operators, nested calls,
	// long argument lists, long chains, many distinct variables - at sizes beyond the round numbers a limit would sit at
	{
		intv := func(n int) sx.SX { return sx.L(sx.I(0), sx.N(int(variants.Integer)), sx.I(int64(n))) }
		v := func(n string) *Tree { return &Tree{Kind: "var", Text: n} }
		senv := sx.List{sx.L(sx.S("a"), intv(3)), sx.L(sx.S("b"), intv(5)), sx.L(sx.S("c"), intv(-2))}
		names := []string{"a", "b", "c"}
		for _, D := range []int{20, 70, 130, 260, 520, 1100} {
			inner := &Tree{Kind: "bin", Op: "+", Args: []*Tree{v("a"), v("b")}}
			ctx.OracleOnly(exprInput(strings.Repeat("(", D)+"a + b"+strings.Repeat(")", D)+" * c", senv, &Tree{Kind: "bin", Op: "*", Args: []*Tree{inner, v("c")}}), fmt.Sprintf("scale: %d redundant parentheses", D))
			right := v(names[D%3])
			for i := D - 1; i >= 0; i-- {
				right = &Tree{Kind: "bin", Op: "-", Args: []*Tree{v(names[i%3]), right}}
			}
			p := &printer{rnd: ctx.Rnd, parens: 0}
			ctx.OracleOnly(exprInput(p.at(right, 0), senv, right), fmt.Sprintf("scale: %d right-nested operators", D))
			left := v("a")
			for i := 0; i < D; i++ {
				left = &Tree{Kind: "bin", Op: []string{"+", "-", "*"}[i%3], Args: []*Tree{left, v(names[i%3])}}
			}
			ctx.OracleOnly(exprInput(p.at(left, 0), senv, left), fmt.Sprintf("scale: a chain of %d operators", D))
			call := v("a")
			for i := 0; i < D; i++ {
				call = &Tree{Kind: "call", Text: "f", Args: []*Tree{call}}
			}
			ctx.OracleOnly(exprInput(p.at(call, 0), senv, call), fmt.Sprintf("scale: %d nested calls", D))
			wide := &Tree{Kind: "call", Text: "g"}
			for i := 0; i < D; i++ {
				wide.Args = append(wide.Args, v(names[i%3]))
			}
			ctx.OracleOnly(exprInput(p.at(wide, 0), senv, wide), fmt.Sprintf("scale: a call with %d arguments", D))
			idx := v("a")
			for i := 0; i < D && i < 300; i++ {
				idx = &Tree{Kind: "bin", Op: "ELEM", Args: []*Tree{v("c"), idx}}
			}
			ctx.OracleOnly(exprInput(p.at(idx, 0), senv, idx), fmt.Sprintf("scale: %d nested index expressions", min(D, 300)))
			var many sx.List
			sum := v("v0")
			many = append(many, sx.L(sx.S("v0"), intv(1)))
			for i := 1; i < D && i < 300; i++ {
				n := fmt.Sprintf("v%d", i)
				many = append(many, sx.L(sx.S(n), intv(i+1)))
				sum = &Tree{Kind: "bin", Op: "+", Args: []*Tree{sum, v(n)}}
			}
			ctx.OracleOnly(exprInput(p.at(sum, 0), many, sum), fmt.Sprintf("scale: %d distinct variables", min(D, 300)))
		}
	}
	depth := 3
	if ctx.Thorough {
		depth = 4
	}
	env := symEnv(ctx.Rnd)
	var rec func(cur []string, k int)
	rec = func(cur []string, k int) {
		if len(cur) > 0 {
			ctx.Count(fmt.Sprintf("exhaustive-len:%d", len(cur)))
			ctx.Input(exprInput(strings.Join(cur, " "), env, nil), len(cur) >= 3)
		}
		if k == 0 {
			return
		}
		for _, t := range c02Vocab {
			rec(append(cur, t), k-1)
		}
	}
	rec(nil, depth)
}

// ---------- symbolic evaluation of a tree, independent of parser and calculator ----------
type symErr struct{ code int64 }

func symConst(text string) sx.SX {
	u := strings.ToUpper(text)
	switch {
	case u == "TRUE" || u == "FALSE":
		return sx.L(sx.I(0), sx.N(int(variants.Boolean)), sx.B(u == "TRUE"))
	case text[0] == '\'':
		return sx.L(sx.I(0), sx.N(int(variants.String)), sx.S(strings.ReplaceAll(text[1:len(text)-1], "''", "'")))
	case strings.ContainsAny(text, ".eE"):
		f, _ := strconv.ParseFloat(text, 64)
		return sx.L(sx.I(0), sx.N(int(variants.Float)), sx.U(uint64(math.Float32bits(float32(f)))))
	}
	n, _ := strconv.Atoi(text)
	return sx.L(sx.I(0), sx.N(int(variants.Integer)), sx.I(int64(n)))
}

var opType = map[string]int{"AND": parsers.And, "OR": parsers.Or, "XOR": parsers.Xor, "=": parsers.Equal, "<>": parsers.NotEqual, ">": parsers.More,
	"<": parsers.Less, ">=": parsers.EqualMore, "<=": parsers.EqualLess, "+": parsers.Plus, "-": parsers.Minus, "*": parsers.Star, "/": parsers.Slash,
	"%": parsers.Procent, "^": parsers.Power, "<<": parsers.ShiftLeft, ">>": parsers.ShiftRight, "ELEM": parsers.Element}

func symEval(t *Tree, env map[string]sx.SX) (sx.SX, *symErr) {
	switch t.Kind {
	case "const":
		return symConst(t.Text), nil
	case "var":
		v, ok := env[strings.Trim(t.Text, "\"")]
		if !ok {
			return nil, &symErr{20}
		}
		return v, nil
	case "call":
		var args sx.List
		for _, a := range t.Args {
			v, e := symEval(a, env)
			if e != nil {
				return nil, e
			}
			args = append(args, v)
		}
		if strings.HasPrefix(t.Text, "nf") {
			return nil, &symErr{21}
		}
		return append(sx.List{sx.I(3), sx.S(t.Text)}, args...), nil
	case "un":
		v, e := symEval(t.Args[0], env)
		if e != nil {
			return nil, e
		}
		null := sx.Text(v) == sx.Text(sx.L(sx.I(0), sx.N(int(variants.Null)), sx.L()))
		switch t.Op {
		case "NOT":
			return sx.L(sx.I(2), sx.N(parsers.Not), v), nil
		case "NEG":
			return sx.L(sx.I(2), sx.N(parsers.Unary), v), nil
		case "ISNULL":
			return sx.L(sx.I(0), sx.N(int(variants.Boolean)), sx.B(null)), nil
		default:
			return sx.L(sx.I(0), sx.N(int(variants.Boolean)), sx.B(!null)), nil
		}
	default:
		a, e := symEval(t.Args[0], env)
		if e != nil {
			return nil, e
		}
		b, e := symEval(t.Args[1], env)
		if e != nil {
			return nil, e
		}
		switch t.Op {
		case "IN", "NOTIN": // membership of the left operand in the right one: In(container, element)
			return sx.L(sx.I(2), sx.N(parsers.In), b, a), nil
		case "LIKE", "NOTLIKE":
			return nil, &symErr{22}
		}
		return sx.L(sx.I(2), sx.N(opType[t.Op]), a, b), nil
	}
}

// ---------- real evaluation of a tree with the library's own operators ----------
func realConst(text string) *variants.Variant {
	u := strings.ToUpper(text)
	switch {
	case u == "TRUE" || u == "FALSE":
		return variants.VariantFromBoolean(u == "TRUE")
	case text[0] == '\'':
		return variants.VariantFromString(strings.ReplaceAll(text[1:len(text)-1], "''", "'"))
	case strings.ContainsAny(text, ".eE"):
		f, _ := strconv.ParseFloat(text, 64)
		return variants.VariantFromFloat(float32(f))
	}
	n, _ := strconv.Atoi(text)
	return variants.VariantFromInteger(n)
}

func realEval(t *Tree, ops variants.IVariantOperations, vars variables.IVariableCollection, funcs functions.IFunctionCollection) (*variants.Variant, error) {
	switch t.Kind {
	case "const":
		return realConst(t.Text), nil
	case "var":
		v := vars.FindByName(strings.Trim(t.Text, "\""))
		if v == nil {
			return nil, fmt.Errorf("variable not found")
		}
		return v.Value(), nil
	case "call":
		var args []*variants.Variant
		for _, a := range t.Args {
			v, e := realEval(a, ops, vars, funcs)
			if e != nil {
				return nil, e
			}
			args = append(args, v)
		}
		f := funcs.FindByName(t.Text)
		if f == nil {
			return nil, fmt.Errorf("function not found")
		}
		return f.Calculate(args, ops)
	case "un":
		v, e := realEval(t.Args[0], ops, vars, funcs)
		if e != nil {
			return nil, e
		}
		switch t.Op {
		case "NOT":
			return ops.Not(v)
		case "NEG":
			return ops.Negative(v)
		case "ISNULL":
			return variants.VariantFromBoolean(v.IsNull()), nil
		default:
			return variants.VariantFromBoolean(!v.IsNull()), nil
		}
	}
	a, e := realEval(t.Args[0], ops, vars, funcs)
	if e != nil {
		return nil, e
	}
	b, e := realEval(t.Args[1], ops, vars, funcs)
	if e != nil {
		return nil, e
	}
	switch t.Op {
	case "AND":
		return ops.And(a, b)
	case "OR":
		return ops.Or(a, b)
	case "XOR":
		return ops.Xor(a, b)
	case "=":
		return ops.Equal(a, b)
	case "<>":
		return ops.NotEqual(a, b)
	case ">":
		return ops.More(a, b)
	case "<":
		return ops.Less(a, b)
	case ">=":
		return ops.MoreEqual(a, b)
	case "<=":
		return ops.LessEqual(a, b)
	case "+":
		return ops.Add(a, b)
	case "-":
		return ops.Sub(a, b)
	case "*":
		return ops.Mul(a, b)
	case "/":
		return ops.Div(a, b)
	case "%":
		return ops.Mod(a, b)
	case "^":
		return ops.Pow(a, b)
	case "<<":
		return ops.Lsh(a, b)
	case ">>":
		return ops.Rsh(a, b)
	case "ELEM":
		return ops.GetElement(a, b)
	case "IN":
		return ops.In(b, a)
	case "NOTIN":
		r, err := ops.In(b, a)
		if err != nil {
			return nil, err
		}
		if r.Type() == variants.Boolean {
			return variants.VariantFromBoolean(!r.AsBoolean()), nil
		}
		return r, nil
	}
	return nil, fmt.Errorf("no evaluator for %s", t.Op)
}

func realValues() []*variants.Variant {
	arr := variants.VariantFromArray([]*variants.Variant{variants.VariantFromInteger(1), variants.VariantFromString("abc"), variants.VariantFromInteger(7)})
	return []*variants.Variant{variants.VariantFromInteger(0), variants.VariantFromInteger(1), variants.VariantFromInteger(7), variants.VariantFromInteger(-3),
		variants.VariantFromLong(1 << 40), variants.VariantFromFloat(1.5), variants.VariantFromDouble(2.25), variants.VariantFromString("abc"), variants.VariantFromString("7"),
		variants.VariantFromString(""), variants.VariantFromBoolean(true), variants.VariantFromBoolean(false), variants.EmptyVariant(), arr}
}

func sameResult(a *variants.Variant, ea error, b *variants.Variant, eb error) (bool, string) {
	if (ea != nil) != (eb != nil) {
		return false, fmt.Sprintf("calculator: (%v, %v)  tree: (%v, %v)", show(a), ea, show(b), eb)
	}
	if ea != nil {
		return true, ""
	}
	if a == nil || b == nil {
		return a == nil && b == nil, "nil result without error"
	}
	ta, pa := variantPayload(a)
	tb, pb := variantPayload(b)
	if ta != tb || sx.Text(pa) != sx.Text(pb) {
		return false, fmt.Sprintf("calculator: %s  tree: %s", show(a), show(b))
	}
	return true, ""
}

func show(v *variants.Variant) string {
	if v == nil {
		return "<nil>"
	}
	t, p := variantPayload(v)
	return fmt.Sprintf("type %d %s", t, sx.Text(p))
}

var c01TokenCalc *calculator.ExpressionCalculator

func runC01(in sx.SX) (sx.SX, string) {
	l := sx.AsList(in)
	text := sx.AsString(l[0])
	tree := treeFromSX(l[3])
	fail := ""
	// ---- symbolic leg (observable compared with the model) ----
	calc := calculator.NewExpressionCalculator()
	calc.SetVariantOperations(recOps{})
	calc.SetAutoVariables(false)
	var obs sx.SX
	envMap := map[string]sx.SX{}
	if err := calc.SetExpression(text); err != nil {
		code, _ := errCode(err)
		obs = sx.L(sx.I(1), sx.I(code))
		if tree != nil {
			fail = "a generated sentence of the grammar was rejected: " + err.Error()
		}
	} else {
		vars := variables.NewVariableCollection()
		for _, b := range sx.AsList(l[2]) {
			bb := sx.AsList(b)
			vars.Add(variables.NewVariable(sx.AsString(bb[0]), leafVariant(bb[1])))
			envMap[sx.AsString(bb[0])] = bb[1]
		}
		v, err := calc.EvaluateUsingVariablesAndFunctions(vars, recFuncs{})
		switch {
		case err != nil && v != nil:
			fail = "Evaluate returned both a result and an error"
			obs = sx.L(sx.I(-997))
		case err != nil:
			code, name := errCode(err)
			if name == "INTERNAL" {
				code = 22
			}
			obs = sx.L(sx.I(1), sx.I(code))
		case v == nil:
			fail = "Evaluate returned neither a result nor an error"
			obs = sx.L(sx.I(-996))
		default:
			obs = sx.L(sx.I(0), renderValue(v))
		}
		if tree != nil && fail == "" {
			want, serr := symEval(tree, envMap)
			var wantObs sx.SX
			if serr != nil {
				wantObs = sx.L(sx.I(1), sx.I(serr.code))
			} else {
				wantObs = sx.L(sx.I(0), want)
			}
			if sx.Text(wantObs) != sx.Text(obs) {
				fail = fmt.Sprintf("the calculator evaluated %s, the syntax tree denotes %s", sx.Text(obs), sx.Text(wantObs))
			}
		}
	}
	// ---- the two ways of giving a calculator its expression: a token list, then the text those tokens spell ----
	// (one calculator object lives through the whole run; after SetOriginalTokens(tokens of this text) its Expression() is the
	// text the tokens spell - string constants without their quotes - and SetExpression of THAT text must be parsed as text)
	if fail == "" && len(text) < 400 {
		fp := parsers.NewExpressionParser()
		if fp.ParseString(text) == nil && len(fp.OriginalTokens()) > 0 {
			if c01TokenCalc == nil {
				c01TokenCalc = calculator.NewExpressionCalculator()
				c01TokenCalc.SetVariantOperations(recOps{})
				c01TokenCalc.SetAutoVariables(false)
			}
			c01TokenCalc.SetOriginalTokens(fp.OriginalTokens())
			composed := c01TokenCalc.Expression()
			fresh := calculator.NewExpressionCalculator()
			fresh.SetVariantOperations(recOps{})
			fresh.SetAutoVariables(false)
			e1, e2 := c01TokenCalc.SetExpression(composed), fresh.SetExpression(composed)
			if (e1 == nil) != (e2 == nil) {
				fail = fmt.Sprintf("after SetOriginalTokens(tokens of this text), SetExpression(%s) on the same calculator: %v; on a new calculator: %v", sx.Quote(composed), e1, e2)
			} else if e1 == nil {
				mk := func() *variables.VariableCollection {
					vars := variables.NewVariableCollection()
					for _, b := range sx.AsList(l[2]) {
						bb := sx.AsList(b)
						vars.Add(variables.NewVariable(sx.AsString(bb[0]), leafVariant(bb[1])))
					}
					return vars
				}
				r1, x1 := c01TokenCalc.EvaluateUsingVariablesAndFunctions(mk(), recFuncs{})
				r2, x2 := fresh.EvaluateUsingVariablesAndFunctions(mk(), recFuncs{})
				if (x1 == nil) != (x2 == nil) || (x1 == nil && r1 != nil && r2 != nil && sx.Text(renderValue(r1)) != sx.Text(renderValue(r2))) {
					fail = fmt.Sprintf("after SetOriginalTokens(tokens of this text), SetExpression(%s) on the same calculator evaluates differently from a new calculator given that text", sx.Quote(composed))
				}
			}
		}
	}
	// ---- real leg (direct oracle only) ----
	if tree != nil && fail == "" {
		h := fnv.New64a()
		h.Write([]byte(text))
		rnd := rand.New(rand.NewSource(int64(h.Sum64())))
		vals := realValues()
		if (tree.Kind == "bin" || tree.Kind == "un") && tree.Args[0].Kind == "var" && (len(tree.Args) == 1 || tree.Args[1].Kind == "var") {
			// one operator applied to variables: all pairs of values, both managers
			for _, safe := range []bool{false, true} {
				rc := calculator.NewExpressionCalculator()
				if safe {
					rc.SetVariantOperations(variants.NewTypeSafeVariantOperations())
				}
				if err := rc.SetExpression(text); err != nil {
					fail = "rejected: " + err.Error()
					break
				}
				for _, va := range vals {
					for _, vb := range vals {
						if fail != "" {
							break
						}
						vars := variables.NewVariableCollection()
						vars.Add(variables.NewVariable("a", va))
						vars.Add(variables.NewVariable("b", vb))
						got, gerr := rc.EvaluateUsingVariables(vars)
						want, werr := realEval(tree, rc.VariantOperations(), vars, rc.DefaultFunctions())
						if ok, why := sameResult(got, gerr, want, werr); !ok {
							fail = fmt.Sprintf("with a=%s, b=%s (type-safe manager: %v): %s", show(va), show(vb), safe, why)
						}
					}
				}
			}
		}
		// default variables: a handle taken from DefaultVariables() stays the calculator's collection through Clear() and
		// SetExpression(); values assigned through it (in place and by SetValue) are the values Evaluate() computes with
		{
			dc := calculator.NewExpressionCalculator()
			handle := dc.DefaultVariables()
			dc.SetExpression("zz1 + 1")
			dc.Clear()
			if err := dc.SetExpression(text); err == nil {
				var desc []string
				for _, n := range []string{"a", "b", "c", "x1", "_y", "q id", "Z", "é1"} {
					v := vals[rnd.Intn(len(vals))]
					desc = append(desc, n+"="+show(v))
					if dv := handle.FindByName(n); dv != nil {
						if rnd.Intn(2) == 0 {
							dv.SetValue(v)
						} else {
							dv.Value().Assign(v)
						}
					}
				}
				got, gerr := dc.Evaluate()
				want, werr := realEval(tree, dc.VariantOperations(), handle, dc.DefaultFunctions()) // (the handle also holds the automatic variables)
				if ok, why := sameResult(got, gerr, want, werr); !ok {
					fail = fmt.Sprintf("Evaluate() with default variables assigned through a DefaultVariables() handle taken before Clear(), %s: %s", strings.Join(desc, ", "), why)
				}
			}
		}
		// ONE calculator object through all rounds: an evaluation that fails at run time must not disturb the next one
		shared := calculator.NewExpressionCalculator()
		if err := shared.SetExpression(text); err != nil {
			fail = "rejected: " + err.Error()
		}
		for round := 0; round < 6 && fail == ""; round++ {
			rc := shared
			if round%3 == 2 {
				rc.SetVariantOperations(variants.NewTypeSafeVariantOperations())
			} else {
				rc.SetVariantOperations(variants.NewTypeUnsafeVariantOperations())
			}
			vars := variables.NewVariableCollection()
			var desc []string
			for _, n := range []string{"a", "b", "c", "x1", "_y", "q id", "Z", "é1"} {
				v := vals[rnd.Intn(len(vals))]
				vars.Add(variables.NewVariable(n, v))
				desc = append(desc, n+"="+show(v))
			}
			got, gerr := rc.EvaluateUsingVariables(vars)
			want, werr := realEval(tree, rc.VariantOperations(), vars, rc.DefaultFunctions())
			if ok, why := sameResult(got, gerr, want, werr); !ok {
				fail = fmt.Sprintf("with %s: %s", strings.Join(desc, ", "), why)
			}
			if gerr == nil && got == nil {
				fail = "Evaluate returned neither a result nor an error"
			}
		}
	}
	return obs, fail
}
