package main

import (
	"fmt"
	"math"
	"strings"
	"time"

	"harness/sx"

	"github.com/pip-services3-gox/pip-services3-commons-gox/convert"
	"github.com/pip-services3-gox/pip-services3-expressions-gox/calculator"
	"github.com/pip-services3-gox/pip-services3-expressions-gox/calculator/functions"
	"github.com/pip-services3-gox/pip-services3-expressions-gox/calculator/variables"
	"github.com/pip-services3-gox/pip-services3-expressions-gox/variants"
)

// C08 — built-in functions. input = (manager name (arg ...) oracle); output = (0 value) | (1 code)
var c08Names = []string{"Ticks", "TimeSpan", "Now", "Date", "DayOfWeek", "Min", "Max", "Sum", "If", "Choose", "E", "Pi", "Rnd", "Random", "Abs", "Acos", "Asin", "Atan",
	"Exp", "Log", "Ln", "Log10", "Ceil", "Ceiling", "Floor", "Round", "Trunc", "Truncate", "Cos", "Sin", "Tan", "Sqr", "Sqrt", "Empty", "Null", "Contains", "Array"}

var mathFns = map[string]struct {
	code int
	f    func(float64) float64
}{"ACOS": {15, math.Acos}, "ASIN": {16, math.Asin}, "ATAN": {17, math.Atan}, "EXP": {18, math.Exp}, "LOG": {19, math.Log}, "LN": {19, math.Log}, "LOG10": {20, math.Log10},
	"CEIL": {21, math.Ceil}, "CEILING": {21, math.Ceil}, "FLOOR": {22, math.Floor}, "ROUND": {23, math.Round}, "COS": {25, math.Cos}, "SIN": {26, math.Sin}, "TAN": {27, math.Tan},
	"SQR": {28, math.Sqrt}, "SQRT": {28, math.Sqrt}}

func init() {
	time.Local = time.UTC
	register(&Prop{ID: "C08", Gen: genC08, Run: runC08,
		Human: func(in sx.SX) string {
			l := sx.AsList(in)
			var as []string
			for _, a := range sx.AsList(l[2]) {
				as = append(as, sx.Text(a))
			}
			return fmt.Sprintf("%s manager: %s(%s)", []string{"type-unsafe", "type-safe"}[sx.AsInt(l[0])], sx.AsString(l[1]), strings.Join(as, ", "))
		},
		Rule: "all 37 registered function names in random letter case (plus unknown names) x argument lists of length 0..8 drawn from the ~60-value boundary pool (biased to the arity and argument kinds the function expects, plus unbiased lists) x both managers, called directly through FindByName/Calculate; each call is also repeated through an expression Name(v0, v1, ...) with the arguments bound to variables; non-trivial = a call with the right number of arguments; distinct by input hash"})
}

// sameName: the same name ignoring letter case = equal upper-case forms (the library's rule everywhere; so the dotless i
// and the long s spell I and S)
func sameName(a, b string) bool { return strings.ToUpper(a) == strings.ToUpper(b) }

func randCase(ctx *Ctx, s string) string {
	var sb strings.Builder
	for _, c := range s {
		switch ctx.Rnd.Intn(3) {
		case 0:
			sb.WriteString(strings.ToUpper(string(c)))
		case 1:
			sb.WriteString(strings.ToLower(string(c)))
		default:
			sb.WriteRune(c)
		}
	}
	return sb.String()
}

func c08Input(safe bool, name string, args []*variants.Variant) sx.SX {
	var orc sx.List
	seen := map[string]bool{}
	var as sx.List
	for _, a := range args {
		as = append(as, valSXin(a))
		oracleFor(a, &orc, seen)
	}
	fnOracle(name, args, &orc)
	return sx.L(sx.B(safe), sx.S(name), as, orc)
}

// fnOracle adds the host answers a call of the named default function may need.
// dateComponents converts the arguments of Date(...) the way the function does (every argument through the
// manager's Convert to Integer); ok = false when a conversion fails (the function then fails too).
func dateComponents(args []*variants.Variant, ops variants.IVariantOperations) (d [7]int, ok bool) {
	d = [7]int{0, 1, 1, 0, 0, 0, 0}
	for i, a := range args {
		v, err := ops.Convert(a, variants.Integer)
		if err != nil || v == nil {
			return d, false
		}
		d[i] = v.AsInteger()
	}
	return d, true
}

func fnOracle(name string, args []*variants.Variant, out *sx.List) {
	fnOracleWith(name, args, out, nil)
}

func fnOracleWith(name string, args []*variants.Variant, out *sx.List, ops variants.IVariantOperations) {
	orc := *out
	up := strings.ToUpper(name)
	if mf, ok := mathFns[up]; ok && len(args) > 0 {
		if x, ok := hostDouble(args[0]); ok {
			orc = append(orc, sx.L(sx.I(30), sx.L(sx.N(mf.code), f64bits(x)), f64bits(mf.f(x))))
		}
	}
	if up == "DATE" && len(args) >= 2 && len(args) <= 7 {
		d := []int{0, 1, 1, 0, 0, 0, 0}
		ok := true
		for i, a := range args {
			switch a.Type() {
			case variants.Integer:
				d[i] = a.AsInteger()
			case variants.Long:
				d[i] = int(a.AsLong())
			case variants.Boolean:
				if a.AsBoolean() {
					d[i] = 1
				} else {
					d[i] = 0
				}
			case variants.Null:
				d[i] = 0
			default:
				ok = false
			}
		}
		if !ok && ops != nil {
			if dd, ok2 := dateComponents(args, ops); ok2 {
				copy(d, dd[:])
				ok = true
			}
		}
		if ok {
			var key sx.List
			for _, x := range d {
				key = append(key, sx.N(x))
			}
			orc = append(orc, sx.L(sx.I(10), key, unixNs(time.Date(d[0], time.Month(d[1]), d[2], d[3], d[4], d[5], d[6], time.Local))))
		}
	}
	if up == "DAYOFWEEK" && len(args) == 1 {
		var t time.Time
		ok := true
		switch args[0].Type() {
		case variants.DateTime:
			t = args[0].AsDateTime()
		case variants.Integer:
			t = time.Unix(int64(args[0].AsInteger()), 0)
		case variants.Long:
			t = time.Unix(args[0].AsLong(), 0)
		case variants.Null:
			t = time.Time{}
		case variants.String:
			t = convert.DateTimeConverter.ToDateTime(args[0].AsString())
		default:
			ok = false
		}
		if ok {
			orc = append(orc, sx.L(sx.I(11), unixNs(t), sx.N(int(t.Weekday()))))
		}
	}
	*out = orc
}

func genC08(ctx *Ctx) {
	pool := valuePool()
	nums := []*variants.Variant{pool[1], pool[2], pool[3], pool[4], pool[6], pool[7], pool[8], pool[12], pool[14], pool[20], pool[21], pool[27], pool[28], pool[30], pool[33], pool[0], pool[37], pool[45],
		variants.VariantFromDouble(math.Copysign(0, -1)), variants.VariantFromFloat(float32(math.Copysign(0, -1))), variants.VariantFromString("-0"), variants.VariantFromString("-0.0"),
		// rounding edges: halves of both signs, the largest double below one half, an odd integer above 2^52, float32 halves
		variants.VariantFromDouble(-2.5), variants.VariantFromDouble(2.5), variants.VariantFromDouble(-0.5), variants.VariantFromDouble(0.49999999999999994),
		variants.VariantFromDouble(4503599627370497), variants.VariantFromDouble(-1.5), variants.VariantFromFloat(-2.5), variants.VariantFromFloat(8388609),
		variants.VariantFromString("-2.5"), variants.VariantFromLong(-3)}
	small := []*variants.Variant{variants.VariantFromInteger(2021), variants.VariantFromInteger(2), variants.VariantFromInteger(29), variants.VariantFromInteger(13), variants.VariantFromInteger(0), variants.VariantFromInteger(-1), variants.VariantFromInteger(59), variants.VariantFromLong(1614834367), variants.VariantFromInteger(1), variants.VariantFromInteger(3)}
	pick := func(from []*variants.Variant) *variants.Variant { return from[ctx.Rnd.Intn(len(from))] }
	arity := map[string][]int{"TICKS": {0}, "TIMESPAN": {1, 3, 4, 5}, "NOW": {0}, "DATE": {1, 2, 3, 6, 7}, "DAYOFWEEK": {1}, "MIN": {2, 3, 5}, "MAX": {2, 3, 5}, "SUM": {2, 4},
		"IF": {3}, "CHOOSE": {3, 4, 6}, "E": {0}, "PI": {0}, "RND": {0}, "RANDOM": {0}, "ABS": {1}, "EMPTY": {1}, "NULL": {0}, "CONTAINS": {2}, "ARRAY": {0, 1, 3, 8}}
	names := append([]string{}, c08Names...)
	names = append(names, "NoSuchFunction", "Sq")
	rounds := ctx.N / 20
	if rounds < 6 {
		rounds = 6
	}
	for _, name := range names {
		up := strings.ToUpper(name)
		for r := 0; r < rounds; r++ {
			var n int
			good := true
			if ar, ok := arity[up]; ok && ctx.Rnd.Intn(5) > 0 {
				n = ar[ctx.Rnd.Intn(len(ar))]
			} else if _, ok := mathFns[up]; (ok || up == "TRUNC" || up == "TRUNCATE") && ctx.Rnd.Intn(5) > 0 {
				n = 1
			} else {
				n = ctx.Rnd.Intn(9)
				good = false
			}
			args := make([]*variants.Variant, n)
			for i := range args {
				switch {
				case up == "DATE" || up == "TIMESPAN" || up == "CHOOSE" && i == 0:
					args[i] = pick(small)
					if up == "DATE" && i == 6 {
						args[i] = variants.VariantFromInteger(1 + ctx.Rnd.Intn(999999999))
					}
				case up == "DAYOFWEEK" && ctx.Rnd.Intn(3) > 0:
					var dts []*variants.Variant
					for _, v := range pool {
						if v.Type() == variants.DateTime {
							dts = append(dts, v)
						}
					}
					args[i] = pick(dts)
				case up == "CONTAINS" || up == "EMPTY" || up == "ARRAY" || up == "IF" || ctx.Rnd.Intn(4) == 0:
					args[i] = pick(pool)
				default:
					args[i] = pick(nums)
				}
			}
			far := false
			for _, a := range args {
				for _, b := range args {
					if farDate(a, b) {
						far = true // outside the model: time.Time itself overflows
					}
				}
			}
			if far {
				continue
			}
			for _, safe := range []bool{false, true} {
				ctx.Count("fn:" + up)
				ctx.Input(c08Input(safe, randCase(ctx, name), args), good)
			}
		}
	}
	// every name x every argument count 0..8 (numbers), both managers: the wrong counts are errors, never values
	for _, name := range c08Names {
		for n := 0; n <= 8; n++ {
			args := make([]*variants.Variant, n)
			for i := range args {
				args[i] = small[(i+n)%len(small)]
			}
			for _, safe := range []bool{false, true} {
				ctx.Count("arity-sweep")
				ctx.Input(c08Input(safe, name, args), true)
			}
		}
	}
	// spellings with letters whose upper case is an ASCII letter (dotless i, long s): still the same function
	for _, name := range c08Names {
		for _, sp := range []string{strings.NewReplacer("i", "ı", "I", "ı").Replace(name), strings.NewReplacer("s", "ſ", "S", "ſ").Replace(name)} {
			if sp == name {
				continue
			}
			up := strings.ToUpper(name)
			n := 1
			if ar, ok := arity[up]; ok {
				n = ar[0]
			}
			args := make([]*variants.Variant, n)
			for i := range args {
				args[i] = small[i%len(small)]
			}
			ctx.Count("special-spelling")
			ctx.Input(c08Input(false, sp, args), true)
		}
	}
	genC08Scale(ctx, nums)
}

// (scale cases are generated by genC08Scale, called at the end of genC08)
func genC08Scale(ctx *Ctx, nums []*variants.Variant) {
	for _, name := range []string{"Sum", "Min", "Max", "Array", "Choose", "If"} {
		for _, n := range []int{17, 65, 130, 300} {
			args := make([]*variants.Variant, n)
			for i := range args {
				args[i] = nums[(i*5+n)%len(nums)]
			}
			if name == "Choose" {
				args[0] = variants.VariantFromInteger(n - 1)
			}
			for _, safe := range []bool{false, true} {
				ctx.Count("scale-arguments")
				ctx.Input(c08Input(safe, name, args), true)
			}
		}
	}
}

var fnErrCodes = map[string]int64{"WRONG_PARAM_COUNT": 6, "CALC_FAILED": 7}

func runC08(in sx.SX) (sx.SX, string) {
	l := sx.AsList(in)
	safe, name := sx.AsBool(l[0]), sx.AsString(l[1])
	var args []*variants.Variant
	for _, a := range sx.AsList(l[2]) {
		args = append(args, valFromSX(a))
	}
	m := newManager(safe)
	// another default collection is edited first (the function is removed from it, a user function is added): default
	// collections are independent of each other
	other := functions.NewDefaultFunctionCollection()
	other.RemoveByName(name)
	other.Add(functions.NewDelegatedFunction("zz_user", func(ps []*variants.Variant, ops variants.IVariantOperations) (*variants.Variant, error) {
		return variants.VariantFromInteger(-999), nil
	}))
	coll := functions.NewDefaultFunctionCollection()
	// removing other functions (registered before and after it) does not disturb the lookup of this one
	for _, gone := range []string{"Rnd", "TimeSpan", "Contains"} {
		if !sameName(gone, name) {
			coll.RemoveByName(gone)
		}
	}
	f := coll.FindByName(name)
	if f != nil && !sameName(f.Name(), name) {
		return sx.L(sx.I(-998)), "FindByName(" + name + ") after removing other functions returned the function " + f.Name()
	}
	// a large collection (the defaults and 20 functions of the caller): lookup, removal of other functions by name, lookup again
	big := functions.NewDefaultFunctionCollection()
	for i := 0; i < 20; i++ {
		k := i
		big.Add(functions.NewDelegatedFunction(fmt.Sprintf("zz_u%d", i), func(ps []*variants.Variant, ops variants.IVariantOperations) (*variants.Variant, error) {
			return variants.VariantFromInteger(-1000 - k), nil
		}))
	}
	for step := 0; step < 3; step++ {
		g := big.FindByName(name)
		if (g == nil) != (f == nil) || (g != nil && !sameName(g.Name(), name)) {
			got := "nothing"
			if g != nil {
				got = "the function " + g.Name()
			}
			return sx.L(sx.I(-998)), fmt.Sprintf("in a collection of %d functions, after %d removals by name, FindByName(%s) returned %s", big.Length(), step, name, got)
		}
		if u := big.FindByName("zz_u17"); u == nil || u.Name() != "zz_u17" {
			return sx.L(sx.I(-998)), fmt.Sprintf("in a collection of %d functions, after %d removals by name, the caller's function zz_u17 is not found under its name", big.Length(), step)
		}
		for _, gone := range [][]string{{"zz_u3", "Ticks"}, {"zz_u0", "Array"}, {}}[step] {
			if !sameName(gone, name) {
				big.RemoveByName(gone)
			}
		}
	}
	if coll.FindByName("zz_user") != nil {
		return sx.L(sx.I(-998)), "a function added to one default collection shows up in a new default collection"
	}
	known := false
	for _, n := range c08Names {
		if sameName(n, name) {
			known = true
		}
	}
	if f == nil {
		if known {
			return sx.L(sx.I(1), sx.I(8)), "a registered function was not found under the name " + name
		}
		return sx.L(sx.I(1), sx.I(8)), ""
	}
	if !known {
		return sx.L(sx.I(0), sx.L(sx.I(0), sx.L())), "an unregistered name resolved to a function"
	}
	before := time.Now()
	res, err := f.Calculate(args, m)
	after := time.Now()
	var obs sx.SX
	fail := ""
	switch {
	case err != nil && res != nil:
		obs, fail = sx.L(sx.I(-997)), "both a result and an error"
	case err != nil:
		code := codeOf(err)
		if c, ok := fnErrCodes[code]; ok {
			obs = sx.L(sx.I(1), sx.I(c))
		} else if c, ok := varErrCodes[code]; ok {
			obs = sx.L(sx.I(1), sx.I(c))
		} else {
			obs = sx.L(sx.I(1), sx.I(99))
		}
	case res == nil:
		obs, fail = sx.L(sx.I(-996)), "a nil result without error"
	default:
		obs = sx.L(sx.I(0), valSX(res))
	}
	up := strings.ToUpper(name)
	// clock and random functions: in range -> canonical marker
	if err == nil && res != nil {
		switch up {
		case "TICKS":
			if res.Type() == variants.Long && res.AsLong() >= before.Unix() && res.AsLong() <= after.Unix() {
				obs = sx.L(sx.I(0), sx.L(sx.I(2), sx.I(0)))
			} else {
				fail = "Ticks is outside the call interval: " + sx.Text(obs)
			}
		case "NOW":
			if res.Type() == variants.DateTime && !res.AsDateTime().Before(before) && !res.AsDateTime().After(after) {
				obs = sx.L(sx.I(0), sx.L(sx.I(7), sx.I(0)))
			} else {
				fail = "Now is outside the call interval: " + sx.Text(obs)
			}
		case "RND", "RANDOM":
			if res.Type() == variants.Float && res.AsFloat() >= 0 && res.AsFloat() < 1 {
				obs = sx.L(sx.I(0), sx.L(sx.I(3), sx.I(0)))
			} else {
				fail = "Rnd is outside [0,1): " + sx.Text(obs)
			}
		}
	}
	// a wrong number of arguments is an error (functions with a fixed set of argument counts)
	if fail == "" && err == nil {
		fixed := map[string][]int{"TICKS": {0}, "NOW": {0}, "E": {0}, "PI": {0}, "RND": {0}, "RANDOM": {0}, "NULL": {0}, "ABS": {1}, "DAYOFWEEK": {1}, "EMPTY": {1},
			"TRUNC": {1}, "TRUNCATE": {1}, "CONTAINS": {2}, "IF": {3}, "TIMESPAN": {1, 3, 4, 5}}
		for k := range mathFns {
			fixed[k] = []int{1}
		}
		if allowed, ok := fixed[up]; ok {
			good := false
			for _, n := range allowed {
				good = good || n == len(args)
			}
			if !good {
				fail = fmt.Sprintf("%s called with %d arguments returned %s instead of an error (it takes %v)", name, len(args), sx.Text(obs), allowed)
			}
		}
	}
	// Choose(i, v1, ..., vn) denotes vi; an index outside 0..n has no meaning and is an error, never a substituted value
	if fail == "" && up == "CHOOSE" && len(args) >= 3 {
		if c, cerr := m.Convert(args[0], variants.Integer); cerr == nil && c != nil && c.Type() == variants.Integer {
			i := c.AsInteger()
			if i < 0 || i >= len(args) {
				if err == nil {
					fail = fmt.Sprintf("Choose with index %d and %d alternatives returned %s instead of an error", i, len(args)-1, sx.Text(obs))
				}
			} else if i >= 1 && (err != nil || res == nil || sx.Text(valSX(res)) != sx.Text(valSX(args[i]))) {
				fail = fmt.Sprintf("Choose with index %d returned %s, alternative %d is %s", i, sx.Text(obs), i, sx.Text(valSX(args[i])))
			}
		}
	}
	// Sum is the left fold of + over its arguments (the first argument decides the type of every step)
	if fail == "" && up == "SUM" && len(args) >= 2 {
		acc, ferr := args[0], error(nil)
		for _, a := range args[1:] {
			if acc, ferr = m.Add(acc, a); ferr != nil {
				break
			}
		}
		if ok, why := sameResult(res, err, acc, ferr); !ok {
			fail = "Sum differs from adding its arguments from left to right: " + why
		}
	}
	// direct oracle: what the name denotes (for the functions with a simple closed form)
	if fail == "" && err == nil && res != nil {
		fail = c08Denotes(up, args, res, m)
	}
	// the same call through an expression Name(v0, v1, ...)
	if fail == "" && up != "TICKS" && up != "NOW" && up != "RND" && up != "RANDOM" && up != "NULL" && []rune(name)[0] < 0x100 { // NULL is a keyword of the expression language; an identifier starts with a Latin-1 letter
		calc := calculator.NewExpressionCalculator()
		calc.SetVariantOperations(m)
		var ps []string
		vars := variables.NewVariableCollection()
		for i, a := range args {
			ps = append(ps, fmt.Sprintf("v%d", i))
			vars.Add(variables.NewVariable(fmt.Sprintf("v%d", i), a))
		}
		if e := calc.SetExpression(name + "(" + strings.Join(ps, ",") + ")"); e != nil {
			fail = "the call expression was rejected: " + e.Error()
		} else {
			// the same calculator object first evaluates against the caller's own functions, then against the defaults
			own := functions.NewFunctionCollection()
			own.Add(functions.NewDelegatedFunction(strings.ToLower(name), func(ps []*variants.Variant, ops variants.IVariantOperations) (*variants.Variant, error) {
				return variants.VariantFromInteger(-999), nil
			}))
			if r0, e0 := calc.EvaluateUsingVariablesAndFunctions(vars, own); e0 != nil || r0 == nil || r0.Type() != variants.Integer || r0.AsInteger() != -999 {
				fail = "evaluated against a function collection of the caller that defines " + strings.ToLower(name) + ", the call did not reach the caller's function"
			}
			r2, e2 := calc.EvaluateUsingVariables(vars)
			if ok, why := sameResult(res, err, r2, e2); !ok {
				fail = "called through an expression the result differs: " + why
			} else if e2 == nil && r2 == nil {
				fail = "called through an expression: nil result without error"
			}
		}
	}
	// what a function returns belongs to the caller: writing into it in place changes neither the arguments, nor the
	// package's shared null constant, nor what the same call returns next time
	if fail == "" && err == nil && res != nil && up != "TICKS" && up != "NOW" && up != "RND" && up != "RANDOM" {
		isArg := false
		var beforeArgs []string
		for _, a := range args {
			isArg = isArg || a == res
			beforeArgs = append(beforeArgs, sx.Text(valSX(a)))
		}
		if !isArg {
			res.SetAsInteger(424242)
			if !variants.Empty.IsNull() {
				fail = "writing into the result of a function changed the package-level constant variants.Empty to " + sx.Text(valSX(variants.Empty))
				variants.Empty.Clear()
			}
			for i, a := range args {
				if fail == "" && sx.Text(valSX(a)) != beforeArgs[i] {
					fail = fmt.Sprintf("writing into the result of %s changed its argument %d", name, i)
				}
			}
			if fail == "" {
				r2, e2 := f.Calculate(args, m)
				if e2 != nil || r2 == nil || sx.Text(sx.L(sx.I(0), valSX(r2))) != sx.Text(obs) {
					fail = fmt.Sprintf("after the caller wrote into the first result, the same call of %s no longer returns %s", name, sx.Text(obs))
				}
			}
		}
	}
	return obs, fail
}

// c08Denotes checks closed-form meanings directly on the implementation's answer.
func c08Denotes(up string, args []*variants.Variant, res *variants.Variant, m variants.IVariantOperations) string {
	switch up {
	case "ARRAY":
		if res.Type() != variants.Array || res.Length() != len(args) {
			return "Array does not hold its arguments"
		}
		for i, a := range args {
			if sx.Text(valSX(res.GetByIndex(i))) != sx.Text(valSX(a)) {
				return fmt.Sprintf("Array element %d differs from argument %d", i, i)
			}
		}
	case "DAYOFWEEK":
		if args[0].Type() == variants.DateTime && (res.Type() != variants.Integer || res.AsInteger() != int(args[0].AsDateTime().Weekday())) {
			return fmt.Sprintf("DayOfWeek returned %s for a %s", sx.Text(valSX(res)), args[0].AsDateTime().Weekday())
		}
	case "DATE":
		if len(args) >= 2 {
			d := []int{0, 1, 1, 0, 0, 0, 0}
			for i, a := range args {
				if a.Type() != variants.Integer {
					return ""
				}
				d[i] = a.AsInteger()
			}
			want := time.Date(d[0], time.Month(d[1]), d[2], d[3], d[4], d[5], d[6], time.Local)
			if res.Type() != variants.DateTime || !res.AsDateTime().Equal(want) {
				return fmt.Sprintf("Date(%v) returned %s, the date those components denote is %s", d[:len(args)], sx.Text(valSX(res)), want)
			}
		}
	case "IF":
		c, err := m.Convert(args[0], variants.Boolean)
		if err == nil {
			want := args[2]
			if c.AsBoolean() {
				want = args[1]
			}
			if sx.Text(valSX(res)) != sx.Text(valSX(want)) {
				return "If selected the wrong branch"
			}
		}
	case "MIN", "MAX":
		// the result is one of the arguments and no argument is strictly beyond it
		found := false
		for _, a := range args {
			if sx.Text(valSX(a)) == sx.Text(valSX(res)) {
				found = true
			}
			var t *variants.Variant
			var e error
			if up == "MIN" {
				t, e = m.Less(a, res)
			} else {
				t, e = m.More(a, res)
			}
			if e == nil && t.Type() == variants.Boolean && t.AsBoolean() && sameNumericKind(args) {
				return fmt.Sprintf("%s returned %s although argument %s is beyond it", up, sx.Text(valSX(res)), sx.Text(valSX(a)))
			}
		}
		if !found {
			return up + " returned a value that is not one of its arguments"
		}
	case "ABS":
		switch args[0].Type() {
		case variants.Integer:
			x := args[0].AsInteger()
			if x < 0 {
				x = -x
			}
			if res.Type() != variants.Integer || res.AsInteger() != x {
				return "Abs of an integer is not its exact absolute value of the same type"
			}
		case variants.Long:
			x := args[0].AsLong()
			if x < 0 {
				x = -x
			}
			if res.Type() != variants.Long || res.AsLong() != x {
				return "Abs of a long is not its exact absolute value of the same type"
			}
		case variants.Double:
			if res.Type() != variants.Double || canon64(math.Float64bits(res.AsDouble())) != canon64(math.Float64bits(math.Abs(args[0].AsDouble()))) {
				return "Abs of a double differs from math.Abs"
			}
		case variants.Float:
			if res.Type() != variants.Float || canon32(math.Float32bits(res.AsFloat())) != canon32(math.Float32bits(float32(math.Abs(float64(args[0].AsFloat()))))) {
				return "Abs of a float differs from math.Abs"
			}
		}
	case "CONTAINS":
		a, e1 := m.Convert(args[0], variants.String)
		b, e2 := m.Convert(args[1], variants.String)
		if e1 == nil && e2 == nil && a.AsString() != "" {
			if res.Type() != variants.Boolean || res.AsBoolean() != strings.Contains(a.AsString(), b.AsString()) {
				return "Contains differs from strings.Contains on the converted arguments"
			}
		}
	default:
		if mf, ok := mathFns[up]; ok {
			if c, err := m.Convert(args[0], variants.Double); err == nil {
				want := mf.f(c.AsDouble())
				if res.Type() != variants.Double || canon64(math.Float64bits(res.AsDouble())) != canon64(math.Float64bits(want)) {
					return fmt.Sprintf("%s differs from the IEEE double function on the converted argument", up)
				}
			}
		}
	}
	return ""
}

func sameNumericKind(args []*variants.Variant) bool {
	t := args[0].Type()
	if t != variants.Integer && t != variants.Long && t != variants.Double {
		return false
	}
	for _, a := range args {
		if a.Type() != t {
			return false
		}
		if t == variants.Double && a.AsDouble() != a.AsDouble() {
			return false
		}
	}
	return true
}
