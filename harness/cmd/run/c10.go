package main

import (
	"fmt"
	"math/rand"
	"sort"
	"strings"

	"harness/sx"

	"github.com/pip-services3-gox/pip-services3-expressions-gox/mustache"
	mparsers "github.com/pip-services3-gox/pip-services3-expressions-gox/mustache/parsers"
	mtokz "github.com/pip-services3-gox/pip-services3-expressions-gox/mustache/tokenizers"
	"github.com/pip-services3-gox/pip-services3-expressions-gox/tokenizers"
)

// C10 — mustache. input = (text tokens vars lowers [tree]); output = (0 rendered names) | (1 code)

type mnode struct {
	kind     int // 0 text 1 var 2 escaped var 3 comment 4 section 5 inverted
	text     string
	name     string
	body     []*mnode
	spelling int
	braces3o bool
	braces3c bool
}

var mNames = []string{"a", "B", "name", "x_1", "日本", "if", "unless", "é", "a-b", "N9", "Name", "istanbul", "maſs", "ıd", "mass"}
var mTexts = []string{"hello", " ", "x{y", "a}b", "{ x", "\n", "'q'", "\"", "日本 text", "{.", "#", "/", "x}", "a }", "😀", "\t-",
	// characters that look like blanks and are ordinary text (only blank, tab, CR and LF are trimmed at the ends of a template)
	"\f", "\v", "x\f", "\u00a0", "\u2028", "\u0085", "\ufeff", "\fy "}

func genMNodes(rnd *rand.Rand, d int) []*mnode {
	n := rnd.Intn(4)
	var out []*mnode
	lastText := false
	for i := 0; i < n; i++ {
		k := rnd.Intn(6)
		if d == 0 && k >= 4 {
			k = rnd.Intn(4)
		}
		if k == 0 && lastText {
			k = 1
		}
		nd := &mnode{kind: k}
		switch k {
		case 0:
			nd.text = mTexts[rnd.Intn(len(mTexts))]
		case 1, 2:
			nd.name = mNames[rnd.Intn(len(mNames))]
		case 3:
			nd.text = []string{" note ", "x", " a b c ", "", " # / ^ ", "{{ x"}[rnd.Intn(6)]
		case 4, 5:
			nd.name = mNames[rnd.Intn(len(mNames))]
			nd.body = genMNodes(rnd, d-1)
			nd.spelling = rnd.Intn(6)
			if nd.name == "if" || nd.name == "unless" {
				nd.spelling = nd.spelling &^ 1 // "#if if" is not a variable named if: use the plain spelling
				nd.spelling = nd.spelling % 2 * 0
			}
		}
		nd.braces3o = k >= 3 && rnd.Intn(3) == 0
		nd.braces3c = k >= 4 && rnd.Intn(3) == 0
		lastText = k == 0
		out = append(out, nd)
	}
	return out
}

func mPrint(rnd *rand.Rand, ns []*mnode) string {
	sp := func() string { return []string{"", " ", "  "}[rnd.Intn(3)] }
	br := func(three bool) (string, string) {
		if three {
			return "{{{", "}}}"
		}
		return "{{", "}}"
	}
	var sb strings.Builder
	for _, n := range ns {
		o, c := br(n.braces3o)
		switch n.kind {
		case 0:
			sb.WriteString(n.text)
		case 1:
			sb.WriteString("{{" + sp() + n.name + sp() + "}}")
		case 2:
			sb.WriteString("{{{" + sp() + n.name + sp() + "}}}")
		case 3:
			sb.WriteString(o + "!" + n.text + c)
		case 4, 5:
			var open string
			if n.kind == 4 {
				if n.spelling%2 == 0 {
					open = "#" + sp() + n.name
				} else {
					open = "#if " + n.name
				}
			} else {
				if n.spelling%2 == 0 {
					open = "^" + sp() + n.name
				} else {
					open = "#unless " + n.name
				}
			}
			var cl string
			switch (n.spelling / 2) % 3 {
			case 0:
				cl = "/" + n.name
			case 1:
				cl = "/if"
			default:
				cl = "/unless"
			}
			o2, c2 := br(n.braces3c)
			sb.WriteString(o + sp() + open + sp() + c + mPrint(rnd, n.body) + o2 + cl + sp() + c2)
		}
	}
	return sb.String()
}

// well-formed text: no "{{", no "{" directly before a tag, no "}" directly after one (DESIGN.md 4.3)
func mWellFormed(ns []*mnode, prevTag bool) bool {
	for i, n := range ns {
		if n.kind == 0 {
			if strings.Contains(n.text, "{{") {
				return false
			}
			if strings.HasPrefix(n.text, "}") && (i > 0 || prevTag) {
				return false
			}
			if strings.HasSuffix(n.text, "{") {
				return false
			}
		}
		if n.kind == 3 && (strings.Contains(n.text, "}}") || strings.Contains(n.text, "\"") || strings.Contains(n.text, "'")) {
			return false
		}
		if n.kind >= 4 && !mWellFormed(n.body, true) {
			return false
		}
	}
	return true
}

func mLookup(vars [][2]string, name string) (string, bool) {
	for _, kv := range vars {
		if strings.ToLower(kv[0]) == strings.ToLower(name) {
			return kv[1], true
		}
	}
	return "", false
}

func mEsc(v string) string {
	return strings.NewReplacer("\\", "\\\\", "\"", "\\\"", "/", "\\/", "\b", "\\b", "\f", "\\f", "\n", "\\n", "\r", "\\r", "\t", "\\t").Replace(v)
}

func mRender(ns []*mnode, vars [][2]string) string {
	var sb strings.Builder
	for _, n := range ns {
		switch n.kind {
		case 0:
			sb.WriteString(n.text)
		case 1:
			v, _ := mLookup(vars, n.name)
			sb.WriteString(v)
		case 2:
			v, _ := mLookup(vars, n.name)
			sb.WriteString(mEsc(v))
		case 4:
			if v, ok := mLookup(vars, n.name); ok && v != "" {
				sb.WriteString(mRender(n.body, vars))
			}
		case 5:
			if v, ok := mLookup(vars, n.name); !ok || v == "" {
				sb.WriteString(mRender(n.body, vars))
			}
		}
	}
	return sb.String()
}

func mNamesInOrder(ns []*mnode, out *[]string) {
	for _, n := range ns {
		if n.kind == 1 || n.kind == 2 || n.kind >= 4 {
			*out = append(*out, n.name)
		}
		if n.kind >= 4 {
			mNamesInOrder(n.body, out)
			if (n.spelling/2)%3 == 0 {
				*out = append(*out, n.name) // the closing tag names the variable again
			}
		}
	}
}

func mTokenizeLikeParser(text string) []srcTok {
	text = strings.Trim(text, " \t\r\n")
	if text == "" {
		return nil
	}
	t := mtokz.NewMustacheTokenizer()
	t.SetSkipWhitespaces(true)
	t.SetSkipComments(true)
	t.SetSkipEof(true)
	t.SetDecodeStrings(true)
	var out []srcTok
	for _, k := range t.TokenizeBuffer(text) {
		out = append(out, srcTok{k.Type(), k.Value()})
	}
	return out
}

func mInput(text string, vars [][2]string, expect sx.SX) sx.SX {
	var toks, vs, lows sx.List
	seen := map[string]bool{}
	low := func(s string) {
		if !seen[s] {
			seen[s] = true
			lows = append(lows, sx.L(sx.S(s), sx.S(strings.ToLower(s))))
		}
	}
	for _, t := range mTokenizeLikeParser(text) {
		toks = append(toks, sx.L(sx.N(t.Type), sx.S(t.Value)))
		if t.Type == tokenizers.Word {
			low(t.Value)
		}
	}
	for _, kv := range vars {
		vs = append(vs, sx.L(sx.S(kv[0]), sx.S(kv[1])))
		low(kv[0])
	}
	return sx.L(sx.S(text), toks, vs, lows, expect)
}

func genVars(rnd *rand.Rand) [][2]string {
	var vars [][2]string
	// keys whose lower case equals a template name although simple case folding says otherwise, and the converse
	for _, kv := range [][2]string{{"İSTANBUL", "city"}, {"MASS", "kg"}, {"ID", "7"}, {"Maſs", "long-s"}, {"\u212a", "kelvin"}} {
		if rnd.Intn(3) == 0 {
			vars = append(vars, kv)
		}
	}
	for _, n := range []string{"a", "b", "name", "x_1", "日本", "if", "unless", "é", "a-b", "n9"} {
		switch rnd.Intn(3) {
		case 0:
			key := n
			switch rnd.Intn(3) {
			case 0:
				key = strings.ToUpper(n)
			case 1:
				key = strings.Title(n)
			}
			vars = append(vars, [2]string{key, []string{"v", "\"q\"\n/\\", "日", " ", "a\tb\r", "{{x}}", "0", "a/b", "http://h/p", "a\\b", "say \"x\"", "\b", "\f", "l1\nl2", "\r", "\t", "/"}[rnd.Intn(17)]})
		case 1:
			vars = append(vars, [2]string{n, ""})
		}
	}
	return vars
}

func genC10(ctx *Ctx) {
	for i := 0; i < ctx.N*2; i++ {
		ast := genMNodes(ctx.Rnd, 1+ctx.Rnd.Intn(3))
		tpl := mPrint(ctx.Rnd, ast)
		vars := genVars(ctx.Rnd)
		wf := mWellFormed(ast, false) && strings.Trim(tpl, " \t\r\n") == tpl && sameBraces(ast)
		var expect sx.SX = sx.L()
		if wf {
			var names []string
			mNamesInOrder(ast, &names)
			var ns sx.List
			for _, n := range names {
				ns = append(ns, sx.S(n))
			}
			expect = sx.L(sx.S(mRender(ast, vars)), ns)
			ctx.Count("template:well-formed")
		} else {
			ctx.Count("template:other")
		}
		ctx.Input(mInput(tpl, vars, expect), len(ast) >= 2)
	}
	// scale (direct oracle only): sections nested 30 .. 400 deep (every spelling), and hundreds of sections, variables
	// and comments side by side
	for _, D := range []int{30, 70, 101, 130, 260, 400} {
		vars := [][2]string{{"a", "1"}, {"B", "x"}, {"name", "<n>"}}
		leaf := []*mnode{{kind: 0, text: "core"}, {kind: 1, name: "name"}, {kind: 2, name: "NAME"}}
		nest := leaf
		for i := 0; i < D; i++ {
			k := 4
			if i%5 == 4 {
				k = 5
			}
			nm := []string{"a", "B", "A", "b", "zz"}[i%5]
			if k == 5 && nm != "zz" {
				k = 4
			}
			nest = []*mnode{{kind: 0, text: "<"}, {kind: k, name: nm, spelling: i, body: nest}, {kind: 0, text: ">"}}
		}
		var flat []*mnode
		for i := 0; i < D*3; i++ {
			flat = append(flat, &mnode{kind: 4, name: []string{"a", "B", "zz"}[i%3], spelling: i, body: []*mnode{{kind: 0, text: "s"}, {kind: 1, name: "B"}}}, &mnode{kind: 3, text: " c "}, &mnode{kind: 2, name: "name"})
		}
		for _, ast := range [][]*mnode{nest, flat} {
			var names []string
			mNamesInOrder(ast, &names)
			var ns sx.List
			for _, n := range names {
				ns = append(ns, sx.S(n))
			}
			ctx.OracleOnly(mInput(mPrint(ctx.Rnd, ast), vars, sx.L(sx.S(mRender(ast, vars)), ns)), fmt.Sprintf("scale %d", D))
		}
	}
	// malformed stream: a well-formed template broken in one place must be rejected
	for i := 0; i < ctx.N; i++ {
		ast := genMNodes(ctx.Rnd, 1+ctx.Rnd.Intn(3))
		if !mWellFormed(ast, false) {
			continue
		}
		tpl := mPrint(ctx.Rnd, ast)
		if strings.Trim(tpl, " \t\r\n") != tpl || tpl == "" {
			continue
		}
		var bad, why string
		switch ctx.Rnd.Intn(5) {
		case 0:
			bad, why = tpl+"{{#zz}}tail", "unclosed section"
		case 1:
			bad, why = tpl+"{{/zz}}", "unopened section"
		case 2:
			bad, why = "{{#aa}}"+tpl+"{{/bb}}", "mismatched section"
		case 3:
			bad, why = tpl+"{{ x", "unclosed tag"
		default:
			switch ctx.Rnd.Intn(4) {
			case 0:
				bad, why = "{{{! c }}"+tpl+"{{{v}}}", "mismatched brace counts on a comment"
			case 1:
				bad, why = tpl+"{{v}}}", "mismatched brace counts"
			case 2:
				bad, why = "{{{v}}"+tpl, "mismatched brace counts"
			default:
				bad, why = "{{! c }}}x{{y}}}"+tpl, "mismatched brace counts on a comment"
			}
		}
		ctx.Count("malformed:" + why)
		ctx.Input(mInput(bad, genVars(ctx.Rnd), sx.L(sx.S(why))), true)
	}
	// nested sections (depth 2 and 3, every section spelling): an inner end tag that names another variable, the outer
	// variable, or is missing - whatever follows - must be rejected
	opens := []string{"{{#%s}}", "{{^%s}}", "{{#if %s}}", "{{#unless %s}}", "{{{#%s}}}"}
	for _, o1 := range opens {
		for _, o2 := range opens {
			for _, inner := range []string{"{{/c}}", "{{/a}}", "", "{{/B}}{{/b}}", "{{/ b c}}"} {
				for _, tail := range []string{"{{/a}}", "{{/a}}{{/a}}", "{{/b}}{{/a}}"} {
					if inner == "{{/a}}" && tail == "{{/a}}" { // this one is the outer end tag followed by ... itself: still malformed (b is never closed)
					}
					if inner == "" && tail == "{{/b}}{{/a}}" {
						continue // well-formed
					}
					bad := fmt.Sprintf(o1, "a") + "p" + fmt.Sprintf(o2, "b") + "x" + inner + tail
					ctx.Count("malformed:nested section")
					ctx.Input(mInput(bad, genVars(ctx.Rnd), sx.L(sx.S("nested section closed by the wrong end tag"))), true)
					if o1 == opens[0] {
						bad3 := "{{#z}}" + bad + "{{/z}}"
						ctx.Count("malformed:nested section")
						ctx.Input(mInput(bad3, genVars(ctx.Rnd), sx.L(sx.S("nested section closed by the wrong end tag (depth 3)"))), true)
					}
				}
			}
		}
	}
	// accept / reject: concatenations of template lexemes
	lex := []string{"{{", "}}", "{{{", "}}}", "#", "/", "^", "!", "if", "unless", "a", "B", " ", "text", "'", "\"", "{", "}", "."}
	depth := 3
	if ctx.Thorough {
		depth = 5
	}
	var rec func(cur []string, k int)
	rec = func(cur []string, k int) {
		if len(cur) > 0 {
			if depth <= 3 || len(cur) <= 3 || ctx.Rnd.Intn(40) == 0 {
				ctx.Count(fmt.Sprintf("lexemes:%d", len(cur)))
				ctx.Input(mInput(strings.Join(cur, ""), [][2]string{{"a", "1"}, {"b", ""}}, sx.L()), len(cur) >= 3)
			}
		}
		if k == 0 {
			return
		}
		for _, l := range lex {
			rec(append(cur, l), k-1)
		}
	}
	rec(nil, depth)
	for i := 0; i < ctx.N; i++ {
		n := 3 + ctx.Rnd.Intn(7)
		var sb strings.Builder
		for j := 0; j < n; j++ {
			sb.WriteString(lex[ctx.Rnd.Intn(len(lex))])
		}
		ctx.Count("lexemes:random")
		ctx.Input(mInput(sb.String(), genVars(ctx.Rnd), sx.L()), true)
	}
	for _, s := range []string{"{{#a}}x", "{{/a}}", "{{#a}}x{{/b}}", "{{a}}}", "{{{a}}", "{{a", "{{#a}}{{#b}}x{{/a}}{{/b}}", "{{! c }}x", "{{!}}", "{{#if}}x{{/if}}", "{{^unless}}y{{/unless}}", "{{ \"}}\" }}", "x{{>p}}"} {
		ctx.Count("special")
		ctx.Input(mInput(s, [][2]string{{"A", "1"}, {"if", "y"}}, sx.L()), true)
	}
}

func sameBraces(ns []*mnode) bool {
	// mismatched brace counts are rejected: generated trees use the same count on both sides of each tag,
	// but the two tags of a section may differ
	return true
}

var mErrCodes = map[string]int64{"UNEXPECTED_SYMBOL": 1, "MISTMATCHED_BRACKETS": 2, "INTERNAL": 3, "UNEXPECTED_END": 4, "UNEXPECTED_SECTION_END": 5, "NOT_CLOSED_SECTION": 6, "ERROR_NEAR": 7}

var c10Warm = mustache.NewMustacheTemplate()

func runC10(in sx.SX) (sx.SX, string) {
	l := sx.AsList(in)
	text := sx.AsString(l[0])
	vars := map[string]string{}
	for _, b := range sx.AsList(l[2]) {
		bb := sx.AsList(b)
		vars[sx.AsString(bb[0])] = sx.AsString(bb[1])
	}
	t := mustache.NewMustacheTemplate()
	t.SetAutoVariables(false)
	t.SetTemplate("warm {{up}}") // the template object is reused: nothing of an earlier template may survive
	fail := ""
	{
		// one template object that lives through the whole run is given every text twice
		outcome := func(tp *mustache.MustacheTemplate) string {
			if err := tp.SetTemplate(text); err != nil {
				return "rejected (" + codeOf(err) + ")"
			}
			r, err := tp.EvaluateWithVariables(vars)
			if err != nil {
				return "evaluation error (" + codeOf(err) + ")"
			}
			return "rendered " + sx.Quote(r)
		}
		ft := mustache.NewMustacheTemplate()
		ft.SetAutoVariables(false)
		fresh := outcome(ft)
		// defaults present, but the caller passes an explicit (empty) map: every variable is absent
		if len(vars) > 0 {
			dt := mustache.NewMustacheTemplate()
			dt.SetAutoVariables(false)
			dt.SetDefaultVariables(vars)
			et := mustache.NewMustacheTemplate()
			et.SetAutoVariables(false)
			if dt.SetTemplate(text) == nil && et.SetTemplate(text) == nil {
				r1, e1 := dt.EvaluateWithVariables(map[string]string{})
				r2, e2 := et.EvaluateWithVariables(map[string]string{})
				if (e1 != nil) != (e2 != nil) || r1 != r2 {
					fail = fmt.Sprintf("EvaluateWithVariables(empty map) on a template object that has default variables renders %s, without defaults %s", sx.Quote(r1), sx.Quote(r2))
				}
			}
		}
		c10Warm.SetAutoVariables(false)
		if first := outcome(c10Warm); first != fresh {
			fail = "a template object used before: " + first + "; a new one: " + fresh
		} else if second := outcome(c10Warm); second != fresh {
			fail = "the same text set twice on one template object: second time " + second + "; a new one: " + fresh
		}
	}
	var obs sx.SX
	expect := sx.AsList(l[4])
	mustReject := len(expect) == 1
	if mustReject {
		expect = nil
	}
	if err := t.SetTemplate(text); err != nil {
		c, ok := mErrCodes[codeOf(err)]
		if !ok {
			c = 99
			fail = "rejected without a known error code: " + err.Error()
		}
		obs = sx.L(sx.I(1), sx.I(c))
		if len(expect) > 0 && fail == "" {
			fail = "a well-formed template was rejected: " + err.Error()
		}
	} else {
		if mustReject {
			fail = "a malformed template (" + sx.AsString(sx.AsList(l[4])[0]) + ") was accepted"
		}
		// the tokens the model is given are the tokens the parser saw
		orig := t.OriginalTokens()
		given := sx.AsList(l[1])
		if len(orig) != len(given) {
			fail = fmt.Sprintf("the parser saw %d tokens, a mustache tokenizer with the same options %d", len(orig), len(given))
		} else {
			for i, o := range orig {
				g := sx.AsList(given[i])
				if int64(o.Type()) != sx.AsInt(g[0]) || o.Value() != sx.AsString(g[1]) {
					fail = fmt.Sprintf("token %d differs between the parser and a mustache tokenizer with the same options", i)
					break
				}
			}
		}
		p := mparsers.NewMustacheParser()
		p.SetTemplate(text)
		var names sx.List
		for _, n := range p.VariableNames() {
			names = append(names, sx.S(n))
		}
		out, err := t.EvaluateWithVariables(vars)
		if err != nil {
			obs = sx.L(sx.I(1), sx.I(98))
			if fail == "" {
				fail = "rendering failed: " + err.Error()
			}
		} else {
			obs = sx.L(sx.I(0), sx.S(out), names)
			if len(expect) > 0 && fail == "" {
				if want := sx.AsString(expect[0]); want != out {
					fail = fmt.Sprintf("rendered %s, the reference semantics gives %s", sx.Quote(out), sx.Quote(want))
				}
				// names: all tags in variable position, first spelling kept, merged ignoring case
				var want []string
				seen := map[string]bool{}
				for _, n := range sx.AsList(expect[1]) {
					k := strings.ToLower(sx.AsString(n))
					if !seen[k] {
						seen[k] = true
						want = append(want, sx.AsString(n))
					}
				}
				var got []string
				for _, n := range p.VariableNames() {
					got = append(got, n)
				}
				if fail == "" && strings.Join(want, "|") != strings.Join(got, "|") {
					fail = fmt.Sprintf("variable names %q, the template's variables in order of first occurrence are %q", got, want)
				}
			}
		}
	}
	_ = sort.Strings
	return obs, fail
}

func init() {
	register(&Prop{ID: "C10", Gen: genC10, Run: runC10,
		Human: func(in sx.SX) string {
			l := sx.AsList(in)
			var vs []string
			for _, b := range sx.AsList(l[2]) {
				bb := sx.AsList(b)
				vs = append(vs, sx.AsString(bb[0])+"="+sx.Quote(sx.AsString(bb[1])))
			}
			return "template " + sx.Quote(sx.AsString(l[0])) + " with {" + strings.Join(vs, ", ") + "}"
		},
		Rule: "template syntax trees of nesting depth<=3 (text, variables, escaped variables, comments, sections and inverted sections in every spelling: # / #if / ^ / #unless, closed by name, /if or /unless, two or three braces on either tag, variables named if/unless, names a B name x_1 CJK e-acute a-b N9) x variable maps (present / absent / empty values, keys in any letter case, values with quotes, slashes, control characters); expected = reference renderer in the harness; plus every concatenation of up to 3 (quick) / 5 (thorough, sampled) template lexemes {{ }} {{{ }}} # / ^ ! if unless a B space text ' \" { } . and random longer ones for the accept/reject decision; non-trivial = at least two nodes / three lexemes; distinct by input hash"})
}

func mparsersNames(text string) []string {
	p := mparsers.NewMustacheParser()
	if p.SetTemplate(text) != nil {
		return nil
	}
	return p.VariableNames()
}
