package main

import (
	"fmt"
	"math"
	"strings"
	"sync"
	"time"

	"harness/sx"

	"github.com/pip-services3-gox/pip-services3-expressions-gox/variants"
)

// C20 — variants hold what they were given. A machine with 4 variant handles and 2 caller-owned lists (slices with
// spare capacity); after every operation the values of all handles and lists and the full Equals matrix are observed.
var c20Kinds = []string{"int", "int32", "uint", "uint32", "int64", "float32", "float64", "bool", "string", "time.Time", "time.Duration", "nil", "other"}

func init() {
	register(&Prop{ID: "C20", Gen: genC20, Run: runC20,
		Human: func(in sx.SX) string {
			var ops []string
			for _, o := range sx.AsList(in) {
				oo := sx.AsList(o)
				if sx.AsInt(oo[0]) == 9 {
					ops = append(ops, "[heap machine]")
					continue
				}
				fl := sx.AsInt(oo[len(oo)-1])
				switch sx.AsInt(oo[0]) {
				case 8:
					ops = append(ops, fmt.Sprintf("v%d.GetByIndex(%d).SetAsObject(%s)", sx.AsInt(oo[1]), sx.AsInt(oo[2]), sx.Text(oo[3])))
				case 0:
					ops = append(ops, fmt.Sprintf("v%d=%s(%s %s)", sx.AsInt(oo[1]), []string{"NewVariant", "VariantFromX", "SetAsX"}[fl], c20Kinds[sx.AsInt(oo[3])], sx.Text(oo[2])))
				case 1:
					ops = append(ops, fmt.Sprintf("v%d=%s(l%d)", sx.AsInt(oo[1]), []string{"VariantFromArray", "SetAsArray", "NewVariant"}[fl], sx.AsInt(oo[2])))
				case 2:
					ops = append(ops, fmt.Sprintf("v%d=%s(v%d)", sx.AsInt(oo[1]), []string{"Clone", "SetAsObject", "NewVariant", "Assign"}[fl], sx.AsInt(oo[2])))
				case 3:
					ops = append(ops, fmt.Sprintf("v%d.SetByIndex(%d,%s)", sx.AsInt(oo[1]), sx.AsInt(oo[2]), sx.Text(oo[3])))
				case 4:
					ops = append(ops, fmt.Sprintf("v%d.SetLength(%d)", sx.AsInt(oo[1]), sx.AsInt(oo[2])))
				case 5:
					ops = append(ops, fmt.Sprintf("l%d[%d]=%s", sx.AsInt(oo[1]), sx.AsInt(oo[2]), sx.Text(oo[3])))
				case 6:
					ops = append(ops, fmt.Sprintf("l%d=append(l%d,%s)", sx.AsInt(oo[1]), sx.AsInt(oo[1]), sx.Text(oo[2])))
				default:
					ops = append(ops, fmt.Sprintf("l%d=l%d[:0]", sx.AsInt(oo[1]), sx.AsInt(oo[1])))
				}
			}
			return strings.Join(ops, "; ")
		},
		Rule: "operation histories of length<=16 on 4 variant handles and 2 caller-owned lists (one with spare capacity, one starting as the nil slice; both reused after truncation to length 0): construction from host values of every supported Go kind (int, int32, uint, uint32, int64, float32, float64, bool, string, time.Time, time.Duration, nil, other) through NewVariant / VariantFromX / SetAsX, from lists through VariantFromArray / SetAsArray / NewVariant, copies through Clone / SetAsObject / NewVariant / Assign, indexed writes within and past the end, SetLength, caller-side writes, appends and truncations; every history is run by the model on the HEAP machine (objects, slices, backing arrays; the spare capacity append leaves is measured from the Go runtime and passed with the history); in the disciplined families handles that share a list through Assign are not mutated in place (DESIGN.md 4.3) and the direct value oracle applies, in the shared-write family they are (indexed writes and SetLength on either handle, inside the shared part, at its end and past it, clones and further Assigns in between) and the heap machine alone says what every handle must then hold; after every operation all values and the full Equals matrix are observed; non-trivial = a copy or list construction followed by a mutation of either side; distinct by input hash"})
}

// c20Slack measures what the heap machine takes as a parameter: the spare capacity append leaves when it has to
// reallocate a full slice of length n.
func c20Slack(upto int) sx.SX {
	var t sx.List
	for n := 0; n < upto; n++ {
		s := make([]*variants.Variant, n, n)
		s = append(s, nil)
		t = append(t, sx.N(cap(s)-n-1))
	}
	return sx.L(sx.I(9), t)
}

type hostVal struct {
	kind int
	enc  sx.SX // (type payload) as the value model sees it
}

func c20Host(ctx *Ctx) hostVal {
	k := ctx.Rnd.Intn(13)
	n := int64(ctx.Rnd.Intn(7) - 2)
	switch k {
	case 0, 1:
		return hostVal{k, sx.L(sx.I(1), sx.I(n))}
	case 2, 3:
		if n < 0 {
			n = -n
		}
		return hostVal{k, sx.L(sx.I(2), sx.I(n))}
	case 4:
		return hostVal{k, sx.L(sx.I(2), sx.I(n*1000000007))}
	case 5:
		f := []float32{0, 1.5, -2, float32(math.NaN()), float32(math.Copysign(0, -1))}[ctx.Rnd.Intn(5)]
		return hostVal{k, sx.L(sx.I(3), f32bits(f))}
	case 6:
		f := []float64{0, 2.5, -1e300, math.NaN(), math.Inf(1), math.Copysign(0, -1)}[ctx.Rnd.Intn(6)]
		return hostVal{k, sx.L(sx.I(4), f64bits(f))}
	case 7:
		return hostVal{k, sx.L(sx.I(6), sx.B(n > 0))}
	case 8:
		return hostVal{k, sx.L(sx.I(5), sx.S([]string{"", "abc", "日本"}[ctx.Rnd.Intn(3)]))}
	case 9:
		return hostVal{k, sx.L(sx.I(7), sx.I(n*1000000000))}
	case 10:
		return hostVal{k, sx.L(sx.I(8), sx.I(n*1500000))}
	case 11:
		return hostVal{k, sx.L(sx.I(0), sx.L())}
	}
	return hostVal{12, sx.L(sx.I(9), sx.I(int64(1+ctx.Rnd.Intn(3))))}
}

func genC20(ctx *Ctx) {
	slack := c20Slack(64)
	bigSlack := c20Slack(700)
	emit := func(ops sx.List, nt bool) {
		ctx.Input(append(sx.List{slack}, ops...), nt)
	}
	for it := 0; it < ctx.N*2; it++ {
		n := 2 + ctx.Rnd.Intn(15)
		isArr := make([]bool, 4)
		linked := make([]bool, 4)
		llen := make([]int, 2)
		var ops sx.List
		nt := false
		copied := false
		for len(ops) < n {
			i, j, k := ctx.Rnd.Intn(4), ctx.Rnd.Intn(4), ctx.Rnd.Intn(2)
			switch r := ctx.Rnd.Intn(20); {
			case r < 4:
				h := c20Host(ctx)
				fl := ctx.Rnd.Intn(3)
				ops = append(ops, sx.L(sx.I(0), sx.N(i), h.enc, sx.N(h.kind), sx.N(fl)))
				isArr[i], linked[i] = false, false
				ctx.Count("op:new:" + c20Kinds[h.kind])
			case r < 7:
				ops = append(ops, sx.L(sx.I(1), sx.N(i), sx.N(k), sx.N(ctx.Rnd.Intn(3))))
				isArr[i], linked[i] = true, false
				copied = true
				ctx.Count("op:from-list")
			case r < 10:
				fl := ctx.Rnd.Intn(4)
				if i == j && fl == 3 {
					fl = 0
				}
				ops = append(ops, sx.L(sx.I(2), sx.N(i), sx.N(j), sx.N(fl)))
				isArr[i] = isArr[j]
				linked[i] = false
				if fl == 3 && isArr[j] && i != j {
					linked[i], linked[j] = true, true
				}
				copied = true
				ctx.Count("op:copy")
			case r < 13:
				if !isArr[i] || linked[i] {
					continue
				}
				h := c20Host(ctx)
				ops = append(ops, sx.L(sx.I(3), sx.N(i), sx.N(ctx.Rnd.Intn(6)+ctx.Rnd.Intn(2)*ctx.Rnd.Intn(7)), h.enc, sx.N(h.kind), sx.I(0)))
				nt = nt || copied
				ctx.Count("op:set-by-index")
			case r < 14:
				if !isArr[i] || linked[i] {
					continue
				}
				ops = append(ops, sx.L(sx.I(4), sx.N(i), sx.N(ctx.Rnd.Intn(7)), sx.I(0)))
				nt = nt || copied
				ctx.Count("op:set-length")
			case r < 16:
				if llen[k] == 0 {
					continue
				}
				h := c20Host(ctx)
				ops = append(ops, sx.L(sx.I(5), sx.N(k), sx.N(ctx.Rnd.Intn(llen[k])), h.enc, sx.N(h.kind), sx.I(0)))
				nt = nt || copied
				ctx.Count("op:list-write")
			case r < 19:
				if llen[k] >= 6 {
					continue
				}
				h := c20Host(ctx)
				ops = append(ops, sx.L(sx.I(6), sx.N(k), h.enc, sx.N(h.kind), sx.I(0)))
				llen[k]++
				nt = nt || copied
				ctx.Count("op:list-append")
			default:
				ops = append(ops, sx.L(sx.I(7), sx.N(k), sx.I(0)))
				llen[k] = 0
				ctx.Count("op:list-truncate")
			}
		}
		emit(ops, nt)
	}
	// growth chains: an array of length L is written past its end several times, with gaps (so that later writes land
	// inside whatever spare capacity earlier growth left), then cloned, compared and written again
	for L := 0; L <= 5; L++ {
		for _, gaps := range [][]int{{0, 2}, {0, 1, 3}, {1, 1}, {0, 0, 2, 5}, {3}, {0, 6}} {
			var ops sx.List
			ops = append(ops, sx.L(sx.I(7), sx.N(0), sx.I(0)))
			for x := 0; x < L; x++ {
				h := c20Host(ctx)
				ops = append(ops, sx.L(sx.I(6), sx.N(0), h.enc, sx.N(h.kind), sx.I(0)))
			}
			ops = append(ops, sx.L(sx.I(1), sx.N(0), sx.N(0), sx.N(ctx.Rnd.Intn(3))))
			idx := L
			for _, g := range gaps {
				idx += g
				h := c20Host(ctx)
				ops = append(ops, sx.L(sx.I(3), sx.N(0), sx.N(idx), h.enc, sx.N(h.kind), sx.I(0)))
				idx++
			}
			ops = append(ops, sx.L(sx.I(2), sx.N(1), sx.N(0), sx.N(0)))
			h := c20Host(ctx)
			ops = append(ops, sx.L(sx.I(3), sx.N(1), sx.N(idx+1), h.enc, sx.N(h.kind), sx.I(0)))
			ctx.Count("growth-chain")
			emit(ops, true)
		}
	}
	// in-place writes to the nulls an array got by growing (never copied, so nothing else may change): two arrays grow
	// with gaps, one padding element of the first is set in place, every register is observed
	for L := 0; L <= 3; L++ {
		for gap := 2; gap <= 4; gap++ {
			var ops sx.List
			ops = append(ops, sx.L(sx.I(7), sx.N(0), sx.I(0)))
			for x := 0; x < L; x++ {
				h := c20Host(ctx)
				ops = append(ops, sx.L(sx.I(6), sx.N(0), h.enc, sx.N(h.kind), sx.I(0)))
			}
			ops = append(ops, sx.L(sx.I(1), sx.N(0), sx.N(0), sx.N(ctx.Rnd.Intn(3))), sx.L(sx.I(1), sx.N(1), sx.N(0), sx.N(ctx.Rnd.Intn(3))))
			h := c20Host(ctx)
			ops = append(ops, sx.L(sx.I(3), sx.N(0), sx.N(L+gap), h.enc, sx.N(h.kind), sx.I(0)))
			h = c20Host(ctx)
			ops = append(ops, sx.L(sx.I(3), sx.N(1), sx.N(L+gap), h.enc, sx.N(h.kind), sx.I(0)))
			h = c20Host(ctx)
			ops = append(ops, sx.L(sx.I(8), sx.N(0), sx.N(L), h.enc, sx.N(h.kind), sx.I(0)))
			h = c20Host(ctx)
			ops = append(ops, sx.L(sx.I(8), sx.N(1), sx.N(L+1), h.enc, sx.N(h.kind), sx.I(0)))
			ops = append(ops, sx.L(sx.I(0), sx.N(2), sx.L(sx.I(0), sx.L()), sx.N(11), sx.I(0))) // a fresh null variant next to them
			ctx.Count("padding-in-place")
			emit(ops, true)
		}
	}
	// scale: lists and arrays of hundreds of elements - a caller list grown by 130 .. 300 appends, a variant built from it,
	// indexed writes far past the end, SetLength, clones, writes to the caller's list afterwards
	for _, L := range []int{70, 130, 300} {
		var ops sx.List
		ops = append(ops, sx.L(sx.I(7), sx.N(0), sx.I(0)))
		for x := 0; x < L; x++ {
			h := c20Host(ctx)
			ops = append(ops, sx.L(sx.I(6), sx.N(0), h.enc, sx.N(h.kind), sx.I(0)))
		}
		ops = append(ops, sx.L(sx.I(1), sx.N(0), sx.N(0), sx.N(1)), sx.L(sx.I(2), sx.N(1), sx.N(0), sx.N(0)))
		h := c20Host(ctx)
		ops = append(ops, sx.L(sx.I(3), sx.N(1), sx.N(L+150), h.enc, sx.N(h.kind), sx.I(0)), sx.L(sx.I(4), sx.N(0), sx.N(L+90), sx.I(0)))
		h = c20Host(ctx)
		ops = append(ops, sx.L(sx.I(5), sx.N(0), sx.N(L/2), h.enc, sx.N(h.kind), sx.I(0)), sx.L(sx.I(3), sx.N(0), sx.N(L+91), h.enc, sx.N(h.kind), sx.I(0)),
			sx.L(sx.I(2), sx.N(2), sx.N(1), sx.N(1)), sx.L(sx.I(7), sx.N(0), sx.I(0)), sx.L(sx.I(6), sx.N(0), h.enc, sx.N(h.kind), sx.I(0)))
		ctx.Count("scale-lists")
		ctx.Input(append(sx.List{bigSlack}, ops...), true)
	}
	// a variant that shares a list by Assign is then set to another, shorter list: the other variant keeps its elements
	for L := 1; L <= 4; L++ {
		for M := 0; M <= L; M++ {
			for fl := 0; fl < 3; fl++ {
				var ops sx.List
				ops = append(ops, sx.L(sx.I(7), sx.N(0), sx.I(0)), sx.L(sx.I(7), sx.N(1), sx.I(0)))
				for x := 0; x < L; x++ {
					h := c20Host(ctx)
					ops = append(ops, sx.L(sx.I(6), sx.N(0), h.enc, sx.N(h.kind), sx.I(0)))
				}
				for x := 0; x < M; x++ {
					h := c20Host(ctx)
					ops = append(ops, sx.L(sx.I(6), sx.N(1), h.enc, sx.N(h.kind), sx.I(0)))
				}
				ops = append(ops, sx.L(sx.I(1), sx.N(0), sx.N(0), sx.N(0)))  // v0 = from list 0
				ops = append(ops, sx.L(sx.I(2), sx.N(1), sx.N(0), sx.N(3)))  // v1.Assign(v0)
				ops = append(ops, sx.L(sx.I(1), sx.N(1), sx.N(1), sx.N(fl))) // v1 = / set to list 1
				ops = append(ops, sx.L(sx.I(2), sx.N(2), sx.N(0), sx.N(0)))  // v2 = v0.Clone()
				ctx.Count("assign-then-set-to-list")
				emit(ops, true)
			}
		}
	}
	// shared writes: handles that share a list through Assign ARE written in place; what each handle then holds depends on
	// where the write lands (inside the shared part, at its end, past it) and on the spare capacity of the backing array:
	// only the heap machine says what is right
	for it := 0; it < ctx.N; it++ {
		L := ctx.Rnd.Intn(5)
		var ops sx.List
		ops = append(ops, sx.L(sx.I(7), sx.N(0), sx.I(0)))
		for x := 0; x < L; x++ {
			h := c20Host(ctx)
			ops = append(ops, sx.L(sx.I(6), sx.N(0), h.enc, sx.N(h.kind), sx.I(0)))
		}
		ops = append(ops, sx.L(sx.I(1), sx.N(0), sx.N(0), sx.N(ctx.Rnd.Intn(3))))
		if ctx.Rnd.Intn(2) == 0 { // let v0 grow first, so that its backing array has spare capacity when it is shared
			h := c20Host(ctx)
			ops = append(ops, sx.L(sx.I(3), sx.N(0), sx.N(L+ctx.Rnd.Intn(2)), h.enc, sx.N(h.kind), sx.I(0)))
		}
		ops = append(ops, sx.L(sx.I(2), sx.N(1), sx.N(0), sx.N(3)))
		isArr := []bool{true, true, false, false}
		for n := 2 + ctx.Rnd.Intn(6); n > 0; n-- {
			i := ctx.Rnd.Intn(2)
			if ctx.Rnd.Intn(5) == 0 {
				i = 2 + ctx.Rnd.Intn(2)
			}
			switch r := ctx.Rnd.Intn(10); {
			case r < 6:
				if !isArr[i] {
					continue
				}
				h := c20Host(ctx)
				ops = append(ops, sx.L(sx.I(3), sx.N(i), sx.N(ctx.Rnd.Intn(L+4)), h.enc, sx.N(h.kind), sx.I(0)))
				ctx.Count("op:shared-set-by-index")
			case r < 8:
				if !isArr[i] {
					continue
				}
				ops = append(ops, sx.L(sx.I(4), sx.N(i), sx.N(ctx.Rnd.Intn(L+5)), sx.I(0)))
				ctx.Count("op:shared-set-length")
			default:
				j := ctx.Rnd.Intn(4)
				fl := ctx.Rnd.Intn(4)
				if i == j {
					fl = 0
				}
				ops = append(ops, sx.L(sx.I(2), sx.N(i), sx.N(j), sx.N(fl)))
				isArr[i] = isArr[j]
				ctx.Count("op:shared-copy")
			}
		}
		ctx.Count("shared-writes")
		emit(ops, true)
	}
}

func hostOf(enc sx.SX, kind int) any {
	l := sx.AsList(enc)
	p := l[1]
	switch kind {
	case 0:
		return int(sx.AsInt(p))
	case 1:
		return int32(sx.AsInt(p))
	case 2:
		return uint(sx.AsInt(p))
	case 3:
		return uint32(sx.AsInt(p))
	case 4:
		return sx.AsInt(p)
	case 5:
		return math.Float32frombits(uint32(p.(sx.Int).V.Uint64()))
	case 6:
		return math.Float64frombits(p.(sx.Int).V.Uint64())
	case 7:
		return sx.AsBool(p)
	case 8:
		return sx.AsString(p)
	case 9:
		return time.Unix(sx.AsInt(p)/1000000000, 0).UTC()
	case 10:
		return time.Duration(sx.AsInt(p))
	case 11:
		return nil
	}
	return objPool[sx.AsInt(p)-1]
}

func mkVariant(enc sx.SX, kind int, flavour int, old *variants.Variant) *variants.Variant {
	h := hostOf(enc, kind)
	switch flavour {
	case 1:
		switch x := h.(type) {
		case int:
			return variants.VariantFromInteger(x)
		case int64:
			return variants.VariantFromLong(x)
		case float32:
			return variants.VariantFromFloat(x)
		case float64:
			return variants.VariantFromDouble(x)
		case bool:
			return variants.VariantFromBoolean(x)
		case string:
			return variants.VariantFromString(x)
		case time.Time:
			return variants.VariantFromDateTime(x)
		case time.Duration:
			return variants.VariantFromTimeSpan(x)
		}
		return variants.VariantFromObject(h)
	case 2:
		switch x := h.(type) {
		case int:
			old.SetAsInteger(x)
		case int64:
			old.SetAsLong(x)
		case float32:
			old.SetAsFloat(x)
		case float64:
			old.SetAsDouble(x)
		case bool:
			old.SetAsBoolean(x)
		case string:
			old.SetAsString(x)
		case time.Time:
			old.SetAsDateTime(x)
		case time.Duration:
			old.SetAsTimeSpan(x)
		default:
			old.SetAsObject(h)
		}
		return old
	}
	return variants.NewVariant(h)
}

func hasNaN(v *variants.Variant) bool {
	switch v.Type() {
	case variants.Float:
		return v.AsFloat() != v.AsFloat()
	case variants.Double:
		return v.AsDouble() != v.AsDouble()
	case variants.Array:
		for _, e := range v.AsArray() {
			if e != nil && hasNaN(e) {
				return true
			}
		}
	}
	return false
}

var c20Once sync.Once
var c20Deep string

// probeDeepArrays (once per run): arrays nested 1 .. 600 levels deep equal their clone and an identical rebuild, differ
// from the array one level deeper or with another leaf, symmetrically
func probeDeepArrays() string {
	build := func(d int, leaf int) *variants.Variant {
		v := variants.VariantFromInteger(leaf)
		for i := 0; i < d; i++ {
			v = variants.VariantFromArray([]*variants.Variant{variants.VariantFromString("x"), v})
		}
		return v
	}
	// a host time value as the clock hands it out (with its monotonic reading) comes back unchanged, whichever constructor
	// or setter took it, and the variants built from it are equal
	now := time.Now()
	mk := []*variants.Variant{variants.NewVariant(now), variants.VariantFromDateTime(now), variants.VariantFromObject(now), variants.EmptyVariant(), variants.EmptyVariant()}
	mk[3].SetAsDateTime(now)
	mk[4].SetAsObject(now)
	for i, v := range mk {
		if v.Type() != variants.DateTime || v.AsDateTime() != now {
			return fmt.Sprintf("a variant built from time.Now() (way %d of NewVariant, VariantFromDateTime, VariantFromObject, SetAsDateTime, SetAsObject) does not hand the value back unchanged", i)
		}
		for j, w := range mk {
			if !v.Equals(w) {
				return fmt.Sprintf("variants built from one time.Now() value in two ways (%d and %d) are not equal", i, j)
			}
		}
	}
	// a list with an empty slot (a nil element): equality stays symmetric, and an empty slot equals only an empty slot
	one, two := variants.VariantFromInteger(1), variants.VariantFromInteger(2)
	withNil := variants.VariantFromArray([]*variants.Variant{one, nil})
	withNil2 := variants.VariantFromArray([]*variants.Variant{one, nil})
	full := variants.VariantFromArray([]*variants.Variant{one, two})
	if withNil.Equals(full) != full.Equals(withNil) {
		return "Equals is not symmetric between [1, <nil element>] and [1, 2]"
	}
	if withNil.Equals(full) || full.Equals(withNil) {
		return "[1, <nil element>] equals [1, 2]"
	}
	if withNil.Equals(withNil2) != withNil2.Equals(withNil) {
		return "Equals is not symmetric between two lists with a nil element"
	}
	for _, d := range []int{1, 2, 10, 31, 32, 33, 63, 64, 65, 66, 100, 129, 257, 600} {
		a, b, c, e := build(d, 7), build(d, 7), build(d, 8), build(d+1, 7)
		switch {
		case !a.Equals(a.Clone()) || !a.Clone().Equals(a):
			return fmt.Sprintf("an array nested %d levels deep does not equal its clone", d)
		case !a.Equals(b) || !b.Equals(a):
			return fmt.Sprintf("two identically built arrays nested %d levels deep are not equal", d)
		case !a.Equals(a):
			return fmt.Sprintf("an array nested %d levels deep does not equal itself", d)
		case a.Equals(c) || c.Equals(a):
			return fmt.Sprintf("arrays nested %d levels deep with different innermost elements are equal", d)
		case a.Equals(e) || e.Equals(a):
			return fmt.Sprintf("an array nested %d levels deep equals one nested %d levels deep", d, d+1)
		}
	}
	return ""
}

func runC20(in sx.SX) (sx.SX, string) {
	v := []*variants.Variant{variants.EmptyVariant(), variants.EmptyVariant(), variants.EmptyVariant(), variants.EmptyVariant()}
	lists := [][]*variants.Variant{make([]*variants.Variant, 0, 4), nil} // the second caller list starts as the nil slice
	// the value model of the property, kept as immutable encodings
	null := sx.L(sx.I(0), sx.L())
	sv := []sx.SX{null, null, null, null}
	sl := [][]sx.SX{nil, nil}
	var out sx.List
	fail := ""
	setNth := func(l []sx.SX, idx int, x sx.SX) []sx.SX {
		r := append([]sx.SX{}, l...)
		for len(r) <= idx {
			r = append(r, null)
		}
		r[idx] = x
		return r
	}
	// the discipline of DESIGN.md 4.3, tracked as the generator and the theorem (VariantHeapProofs.disc) do: once a handle
	// that may share its list is written in place the value oracle no longer applies, the heap machine still does
	linked := make([]bool, 4)
	disciplined := true
	// handles that may share one list: Assign puts the target into the source's group, every other way of giving a handle
	// a value (constructors, setters, Clone, copies) starts a group of its own; a write through one handle (SetByIndex,
	// SetLength) can show only through handles of its group
	grp, nextGrp := []int{0, 1, 2, 3}, 4
	for step, o := range sx.AsList(in) {
		oo := sx.AsList(o)
		if sx.AsInt(oo[0]) == 9 {
			continue
		}
		a, fl := int(sx.AsInt(oo[1])), int(sx.AsInt(oo[len(oo)-1]))
		switch sx.AsInt(oo[0]) {
		case 0, 1:
			linked[a] = false
			grp[a], nextGrp = nextGrp, nextGrp+1
		case 2:
			j := int(sx.AsInt(oo[2]))
			if fl == 3 {
				if a != j {
					linked[a], linked[j] = true, true
					grp[a] = grp[j]
				}
			} else {
				linked[a] = false
				grp[a], nextGrp = nextGrp, nextGrp+1
			}
		case 3, 4, 8:
			if linked[a] {
				disciplined = false
			}
		}
		beforeOp := make([]string, len(v))
		for i := range v {
			beforeOp[i] = sx.Text(valSX(v[i]))
		}
		switch sx.AsInt(oo[0]) {
		case 0:
			v[a] = mkVariant(oo[2], int(sx.AsInt(oo[3])), fl, v[a])
			sv[a] = oo[2]
		case 1:
			k := int(sx.AsInt(oo[2]))
			switch fl {
			case 0:
				v[a] = variants.VariantFromArray(lists[k])
			case 1:
				v[a].SetAsArray(lists[k])
			default:
				v[a] = variants.NewVariant(lists[k])
			}
			sv[a] = sx.L(sx.I(10), sx.List(append([]sx.SX{}, sl[k]...)))
		case 2:
			j := int(sx.AsInt(oo[2]))
			switch fl {
			case 0:
				v[a] = v[j].Clone()
			case 1:
				v[a].SetAsObject(v[j])
			case 2:
				v[a] = variants.NewVariant(v[j])
			default:
				v[a].Assign(v[j])
			}
			sv[a] = sv[j]
		case 3:
			idx := int(sx.AsInt(oo[2]))
			v[a].SetByIndex(idx, variants.NewVariant(hostOf(oo[3], int(sx.AsInt(oo[4])))))
			cur := sx.AsList(sx.AsList(sv[a])[1])
			sv[a] = sx.L(sx.I(10), sx.List(setNth(cur, idx, oo[3])))
		case 4:
			n := int(sx.AsInt(oo[2]))
			v[a].SetLength(n)
			cur := []sx.SX(sx.AsList(sx.AsList(sv[a])[1]))
			for len(cur) < n {
				cur = append(append([]sx.SX{}, cur...), null)
			}
			sv[a] = sx.L(sx.I(10), sx.List(cur))
		case 5:
			idx := int(sx.AsInt(oo[2]))
			lists[a][idx] = variants.NewVariant(hostOf(oo[3], int(sx.AsInt(oo[4]))))
			sl[a] = setNth(sl[a], idx, oo[3])
		case 6:
			lists[a] = append(lists[a], variants.NewVariant(hostOf(oo[2], int(sx.AsInt(oo[3])))))
			sl[a] = append(append([]sx.SX{}, sl[a]...), oo[2])
		case 8:
			idx := int(sx.AsInt(oo[2]))
			if e := v[a].GetByIndex(idx); e != nil {
				e.SetAsObject(hostOf(oo[3], int(sx.AsInt(oo[4]))))
			}
			cur := sx.AsList(sx.AsList(sv[a])[1])
			if idx < len(cur) {
				sv[a] = sx.L(sx.I(10), sx.List(setNth(cur, idx, oo[3])))
			}
		default:
			lists[a] = lists[a][:0]
			sl[a] = nil
		}
		if k := sx.AsInt(oo[0]); (k == 3 || k == 4) && fail == "" {
			for i := range v {
				if grp[i] != grp[a] && sx.Text(valSX(v[i])) != beforeOp[i] {
					fail = fmt.Sprintf("step %d: a write through v%d changed v%d from %s to %s although v%d holds a copy of its own (it was never assigned from or to v%d's list)", step, a, i, beforeOp[i], sx.Text(valSX(v[i])), i, a)
				}
			}
		}
		if !disciplined { // the value oracle is out: it follows what the handles hold (the Equals checks below still apply)
			for i := range v {
				sv[i] = valSX(v[i])
			}
		}
		// observe
		var regs, ls, eq sx.List
		for _, x := range v {
			regs = append(regs, valSX(x))
		}
		for _, l := range lists {
			var e sx.List
			for _, x := range l {
				e = append(e, valSX(x))
			}
			ls = append(ls, e)
		}
		for ai, x := range v {
			for bi, y := range v {
				r := x.Equals(y)
				eq = append(eq, sx.B(r))
				if r != y.Equals(x) && fail == "" {
					fail = fmt.Sprintf("step %d: v%d.Equals(v%d) = %v but v%d.Equals(v%d) = %v", step, ai, bi, r, bi, ai, !r)
				}
				// against the value model: values of different types are never equal; identical values without NaN always are
				ta, tb := sx.AsInt(sx.AsList(sv[ai])[0]), sx.AsInt(sx.AsList(sv[bi])[0])
				if ta != tb && r && fail == "" {
					fail = fmt.Sprintf("step %d: v%d (%s) equals v%d (%s) although their types differ", step, ai, sx.Text(sv[ai]), bi, sx.Text(sv[bi]))
				}
				if sx.Text(sv[ai]) == sx.Text(sv[bi]) && !r && !hasNaN(x) && fail == "" {
					fail = fmt.Sprintf("step %d: v%d and v%d both hold %s and are not equal", step, ai, bi, sx.Text(sv[ai]))
				}
			}
		}
		out = append(out, sx.L(regs, ls, eq))
		// direct oracle: the value model
		for i := range v {
			if sx.Text(valSX(v[i])) != sx.Text(sv[i]) && fail == "" {
				fail = fmt.Sprintf("step %d: v%d holds %s, the value it was given is %s", step, i, sx.Text(valSX(v[i])), sx.Text(sv[i]))
			}
		}
		for k := range lists {
			var e sx.List
			for _, x := range lists[k] {
				e = append(e, valSX(x))
			}
			if sx.Text(e) != sx.Text(sx.List(sl[k])) && fail == "" {
				fail = fmt.Sprintf("step %d: the caller's list l%d is %s, the caller made it %s", step, k, sx.Text(e), sx.Text(sx.List(sl[k])))
			}
		}
		if sx.AsInt(oo[0]) == 2 && fail == "" {
			j := int(sx.AsInt(oo[2]))
			if !strings.Contains(sx.Text(sv[a]), "2143289344") && !strings.Contains(sx.Text(sv[a]), "9221120237041090560") && !v[a].Equals(v[j]) {
				fail = fmt.Sprintf("step %d: the copy v%d does not equal its original v%d", step, a, j)
			}
		}
	}
	c20Once.Do(func() { c20Deep = probeDeepArrays() })
	if fail == "" {
		fail = c20Deep
	}
	return out, fail
}
