package main

import (
	"fmt"
	"hash/fnv"
	"math/rand"
	"strings"
	"sync"
	"time"

	"harness/sx"

	"github.com/pip-services3-gox/pip-services3-expressions-gox/calculator"
	ctok "github.com/pip-services3-gox/pip-services3-expressions-gox/calculator/tokenizers"
	"github.com/pip-services3-gox/pip-services3-expressions-gox/calculator/variables"
	ccsv "github.com/pip-services3-gox/pip-services3-expressions-gox/csv"
	"github.com/pip-services3-gox/pip-services3-expressions-gox/mustache"
	"github.com/pip-services3-gox/pip-services3-expressions-gox/tokenizers"
	"github.com/pip-services3-gox/pip-services3-expressions-gox/tokenizers/generic"
	"github.com/pip-services3-gox/pip-services3-expressions-gox/variants"
)

// C19 — evaluation is pure and repeatable, also under concurrent use.
// input = (kind base envs rounds): 0 one compiled expression evaluated sequentially rounds x envs; 1 one template;
// 2 one compiled expression evaluated by one goroutine per environment concurrently; 3 the known-finding probe K1.
// This property's harness binary is built with the race detector.
func init() {
	register(&Prop{ID: "C19", Gen: genC19, Run: runC19,
		Human: func(in sx.SX) string {
			l := sx.AsList(in)
			k := sx.AsInt(l[0])
			if k == 3 {
				return "template {{a}} evaluated 60 times with variables {A:1, a:2} (keys collide ignoring case)"
			}
			base := sx.AsList(l[1])
			what := []string{"expression evaluated sequentially", "template rendered sequentially", "expression evaluated by concurrent goroutines"}[k]
			return fmt.Sprintf("%s: %s under %d variable sets x %d rounds", what, sx.Quote(sx.AsString(base[0])), len(sx.AsList(l[2])), sx.AsInt(l[3]))
		},
		Rule: "generated expressions (every operator, calls, indexing) and templates evaluated 2..4 rounds under 2..4 variable sets in interleaved order on ONE compiled instance: results compared per (round, set) with the stateless model, and - with the library's real operators, values of every type incl. doubles and arrays - deep snapshots of the compiled program, the variable values and the function table before and after every evaluation; the same with one goroutine per variable set on one instance, and goroutines each owning a tokenizer / calculator / template, under the race detector; non-trivial = at least two operators or tags; distinct by input hash"})
}

func genC19(ctx *Ctx) {
	for i := 0; i < ctx.N; i++ {
		t := genTree(ctx.Rnd, 1+ctx.Rnd.Intn(5))
		p := &printer{rnd: ctx.Rnd, parens: ctx.Rnd.Intn(3), noise: false}
		text := p.at(t, 0)
		var envs sx.List
		for e := 0; e < 2+ctx.Rnd.Intn(3); e++ {
			envs = append(envs, symEnv(ctx.Rnd))
		}
		kind := 0
		if i%3 == 2 {
			kind = 2
		}
		ctx.Count([]string{"expression:sequential", "", "expression:goroutines"}[kind])
		ctx.Input(sx.L(sx.N(kind), exprInput(text, sx.L(), t), envs, sx.N(2+ctx.Rnd.Intn(3))), countOps(t) >= 2)
	}
	for i := 0; i < ctx.N/2; i++ {
		ast := genMNodes(ctx.Rnd, 1+ctx.Rnd.Intn(3))
		tpl := mPrint(ctx.Rnd, ast)
		var envs sx.List
		var all [][2]string
		for e := 0; e < 2+ctx.Rnd.Intn(3); e++ {
			vars := genVars(ctx.Rnd)
			all = append(all, vars...)
			var vs sx.List
			for _, kv := range vars {
				vs = append(vs, sx.L(sx.S(kv[0]), sx.S(kv[1])))
			}
			envs = append(envs, vs)
		}
		ctx.Count("template:sequential")
		ctx.Input(sx.L(sx.I(1), mInput(tpl, all, sx.L()), envs, sx.N(2+ctx.Rnd.Intn(2))), len(ast) >= 2)
	}
	ctx.Count("probe:K1")
	ctx.Input(sx.L(sx.I(3), sx.L(), sx.L(), sx.I(0)), true)
}

func evalSym(calc *calculator.ExpressionCalculator, env sx.SX) sx.SX {
	vars := variables.NewVariableCollection()
	for _, b := range sx.AsList(env) {
		bb := sx.AsList(b)
		vars.Add(variables.NewVariable(sx.AsString(bb[0]), leafVariant(bb[1])))
	}
	v, err := calc.EvaluateUsingVariablesAndFunctions(vars, recFuncs{})
	switch {
	case err != nil && v != nil:
		return sx.L(sx.I(-997))
	case err != nil:
		code, name := errCode(err)
		if name == "INTERNAL" {
			code = 22
		}
		return sx.L(sx.I(1), sx.I(code))
	case v == nil:
		return sx.L(sx.I(-996))
	}
	return sx.L(sx.I(0), renderValue(v))
}

var c19Once sync.Once
var c19Isolation string

// probeManyVariables: one compiled expression over 3 .. 70 variables, evaluated in turns under two variable collections
// with different values (and a third that lacks one variable): every evaluation returns what its own collection says
func probeManyVariables() string {
	for _, n := range []int{3, 16, 17, 18, 33, 40, 70} {
		var names []string
		for i := 0; i < n; i++ {
			names = append(names, fmt.Sprintf("v%d", i))
		}
		calc := calculator.NewExpressionCalculator()
		calc.SetAutoVariables(false)
		if err := calc.SetExpression(strings.Join(names, " + ")); err != nil {
			return "a sum of " + fmt.Sprint(n) + " variables was rejected: " + err.Error()
		}
		mk := func(scale int) (*variables.VariableCollection, int) {
			vars := variables.NewVariableCollection()
			total := 0
			for i, nm := range names {
				vars.Add(variables.NewVariable(nm, variants.VariantFromInteger((i+1)*scale)))
				total += (i + 1) * scale
			}
			return vars, total
		}
		a, wa := mk(1)
		b, wb := mk(1000)
		short, _ := mk(7)
		short.RemoveByName(names[n-1])
		for round := 0; round < 3; round++ {
			for _, c := range []struct {
				vars *variables.VariableCollection
				want int
			}{{a, wa}, {b, wb}, {a, wa}} {
				r, err := calc.EvaluateUsingVariables(c.vars)
				if err != nil || r == nil || r.Type() != variants.Integer || r.AsInteger() != c.want {
					return fmt.Sprintf("a sum of %d variables, evaluated in turns under two collections: got %s (%v), this collection's values add up to %d", n, sx.Text(valSXorNil(r)), err, c.want)
				}
			}
			if r, err := calc.EvaluateUsingVariables(short); err == nil {
				return fmt.Sprintf("a sum of %d variables evaluated under a collection that lacks %s returned %s instead of an error", n, names[n-1], sx.Text(valSXorNil(r)))
			}
		}
	}
	return ""
}

// probeReuse: using an instance does not change it - one tokenizer and one calculator are given expressions with sibling
// multi-character symbols in turns and keep answering like new ones; a template object keeps ONE default variable per
// name however the names are spelled in the templates it is given, and renders the same text every time
func probeReuse() string {
	tk := ctok.NewExpressionTokenizer()
	calc := calculator.NewExpressionCalculator()
	texts := []string{"a <= b", "a <> b", "a << 1", "a <= b", "a >= b", "a >> 1", "a >= b", "a <> b and a <= b", "a != b", "a <= b"}
	for round := 0; round < 2; round++ {
		for _, text := range texts {
			var got, want []string
			for _, t := range tk.TokenizeBuffer(text) {
				got = append(got, t.Value())
			}
			for _, t := range ctok.NewExpressionTokenizer().TokenizeBuffer(text) {
				want = append(want, t.Value())
			}
			if strings.Join(got, "|") != strings.Join(want, "|") {
				return fmt.Sprintf("an expression tokenizer used before splits %s into %q, a new one into %q", sx.Quote(text), got, want)
			}
			vars := variables.NewVariableCollection()
			vars.Add(variables.NewVariable("a", variants.VariantFromInteger(2)))
			vars.Add(variables.NewVariable("b", variants.VariantFromInteger(2)))
			fresh := calculator.NewExpressionCalculator()
			e1, e2 := calc.SetExpression(text), fresh.SetExpression(text)
			if (e1 == nil) != (e2 == nil) {
				return fmt.Sprintf("a calculator used before and a new one disagree on accepting %s", sx.Quote(text))
			}
			if e1 == nil {
				r1, x1 := calc.EvaluateUsingVariables(vars)
				r2, x2 := fresh.EvaluateUsingVariables(vars)
				if ok, why := sameResult(r1, x1, r2, x2); !ok {
					return fmt.Sprintf("a calculator used before evaluates %s differently from a new one (a = b = 2): %s", sx.Quote(text), why)
				}
			}
		}
	}
	// membership over arrays has one answer, however often and on whichever calculator it is asked
	known := []struct {
		text string
		want bool
	}{{"5 NOT IN Array(1,2,3)", true}, {"2 NOT IN Array(1,2,3)", false}, {"2 IN Array(1,2,3)", true}, {"5 IN Array(1,2,3)", false},
		{"'b' NOT IN Array('a','b')", false}, {"'c' NOT IN Array('a','b')", true}, {"NOT (5 IN Array(1,2,3))", true}, {"1.5 IN Array(1.5, 2)", true}}
	for round := 0; round < 3; round++ {
		for _, k := range known {
			for _, c := range []*calculator.ExpressionCalculator{calc, calculator.NewExpressionCalculator()} {
				if err := c.SetExpression(k.text); err != nil {
					return "the expression " + sx.Quote(k.text) + " was rejected: " + err.Error()
				}
				r, err := c.Evaluate()
				if err != nil || r == nil || r.Type() != variants.Boolean || r.AsBoolean() != k.want {
					return fmt.Sprintf("evaluation %d of %s returns %s (error %v), its value is %v", round+1, sx.Quote(k.text), sx.Text(valSXorNil(r)), err, k.want)
				}
			}
		}
	}
	for _, c := range []struct {
		preset map[string]string
		tpls   []string
	}{
		{map[string]string{"NAME": "", "Greeting": ""}, []string{"{{greeting}}, {{name}}!"}},
		{nil, []string{"{{User}} {{#Flag}}x{{/Flag}}", "{{USER}} {{flag}}", "{{user}}{{^FLAG}}y{{/FLAG}}"}},
	} {
		t := mustache.NewMustacheTemplate()
		if c.preset != nil {
			t.SetDefaultVariables(c.preset)
		}
		for _, tpl := range c.tpls {
			if err := t.SetTemplate(tpl); err != nil {
				return "template " + sx.Quote(tpl) + " was rejected: " + err.Error()
			}
			seen := map[string]string{}
			for k := range t.DefaultVariables() {
				if other, dup := seen[strings.ToLower(k)]; dup {
					return fmt.Sprintf("after SetTemplate(%s) the default variables hold both %q and %q for one name", sx.Quote(tpl), other, k)
				}
				seen[strings.ToLower(k)] = k
			}
		}
		for k := range t.DefaultVariables() {
			t.DefaultVariables()[k] = "v:" + strings.ToLower(k)
		}
		first, _ := t.Evaluate()
		for i := 0; i < 60; i++ {
			if again, _ := t.Evaluate(); again != first {
				return fmt.Sprintf("the same template with the same default variables renders %s and then %s", sx.Quote(first), sx.Quote(again))
			}
		}
	}
	return ""
}

func valSXorNil(v *variants.Variant) sx.SX {
	if v == nil {
		return sx.L()
	}
	return valSX(v)
}

// probeFunctionPurity: every registered function called through an expression Name(a), Name(a, b), Name(a, b, c) ... with
// variables of every type (doubles and arrays included): the variable values, the compiled program and the function table
// are what they were, under both managers, and the second evaluation returns what the first returned (clock and random
// functions excepted)
func probeFunctionPurity() string {
	vals := realValues()
	vals = append(vals, variants.VariantFromDouble(-1.5), variants.VariantFromDouble(2.5), variants.VariantFromFloat(-2.5), variants.VariantFromLong(-3),
		variants.VariantFromDateTime(time.Date(2021, 3, 4, 5, 6, 7, 0, time.UTC)), variants.VariantFromTimeSpan(90*time.Minute), variants.VariantFromString("-2.5"))
	names := []string{"a", "b", "c", "d"}
	for _, safe := range []bool{false, true} {
		calc := calculator.NewExpressionCalculator()
		calc.SetVariantOperations(newManager(safe))
		calc.SetAutoVariables(false)
		nf := calc.DefaultFunctions().Length()
		for _, f := range calc.DefaultFunctions().GetAll() {
			up := strings.ToUpper(f.Name())
			for arity := 0; arity <= 4; arity++ {
				text := f.Name() + "(" + strings.Join(names[:arity], ", ") + ")"
				if err := calc.SetExpression(text); err != nil {
					continue
				}
				prog := sx.Text(renderRPNcalc(calc))
				for shift := 0; shift < len(vals); shift++ {
					vars := variables.NewVariableCollection()
					for i := 0; i < arity; i++ {
						v := vals[(shift+i*5)%len(vals)]
						vars.Add(variables.NewVariable(names[i], v.Clone()))
					}
					before := snapshotVars(vars)
					r1, e1 := calc.EvaluateUsingVariables(vars)
					o1, _ := resSX(r1, e1)
					if after := snapshotVars(vars); after != before {
						return fmt.Sprintf("evaluating %s changed the variable values from %s to %s", sx.Quote(text), before, after)
					}
					r2, e2 := calc.EvaluateUsingVariables(vars)
					o2, _ := resSX(r2, e2)
					if up != "NOW" && up != "TICKS" && up != "RND" && up != "RANDOM" && ((e1 == nil) != (e2 == nil) || (e1 == nil && sx.Text(o1) != sx.Text(o2))) {
						return fmt.Sprintf("evaluating %s twice with %s gave %s and then %s", sx.Quote(text), before, sx.Text(o1), sx.Text(o2))
					}
					if after := snapshotVars(vars); after != before {
						return fmt.Sprintf("evaluating %s twice changed the variable values from %s to %s", sx.Quote(text), before, after)
					}
					if p2 := sx.Text(renderRPNcalc(calc)); p2 != prog {
						return fmt.Sprintf("evaluating %s changed the compiled program from %s to %s", sx.Quote(text), prog, p2)
					}
				}
			}
		}
		if calc.DefaultFunctions().Length() != nf {
			return "evaluating calls changed the number of registered functions"
		}
	}
	if !variants.Empty.IsNull() {
		return "evaluating calls changed the package-level constant variants.Empty"
	}
	return ""
}

// concurrentFirstUse: at process start, before anything was tokenized, several goroutines - each with instances of its
// own - tokenize every registered multi-character symbol for the first time (lazily filled caches shared between
// instances would be written concurrently here; the race detector reports it)
func concurrentFirstUse() {
	var wg sync.WaitGroup
	for g := 0; g < 6; g++ {
		wg.Add(1)
		go func(g int) {
			defer wg.Done()
			defer func() { recover() }()
			ctok.NewExpressionTokenizer().TokenizeBuffer("a<=b<>c>=d<<e>>f!=g")
			c := calculator.NewExpressionCalculator()
			c.SetExpression("a<=b AND c<>d OR e>=f")
			generic.NewGenericTokenizer().TokenizeBuffer("a<=b<>c>=d")
			mustache.NewMustacheTemplate().SetTemplate("{{a}}{{{b}}}{{#c}}x{{/c}}")
			ccsv.NewCsvTokenizer().TokenizeBuffer("a,b\r\nc,d\n\re")
		}(g)
	}
	wg.Wait()
}

// probeIsolation: what one instance registers is invisible to another
func probeIsolation() string {
	a := ctok.NewExpressionTokenizer()
	if st, ok := a.SymbolState().(interface {
		Add(string, int)
	}); ok {
		st.Add("<=>", tokenizers.Symbol)
	} else {
		return ""
	}
	b := ctok.NewExpressionTokenizer()
	var vals []string
	for _, t := range b.TokenizeBuffer("a<=>b") {
		vals = append(vals, t.Value())
	}
	if strings.Join(vals, " ") != "a <= > b " {
		return "a symbol registered on one expression tokenizer changes what another expression tokenizer returns for \"a<=>b\": " + strings.Join(vals, " ")
	}
	return ""
}

func runC19(in sx.SX) (sx.SX, string) {
	l := sx.AsList(in)
	kind := sx.AsInt(l[0])
	envs := sx.AsList(l[2])
	rounds := int(sx.AsInt(l[3]))
	switch kind {
	case 3:
		return sx.L(), probeK1()
	case 1:
		return runC19Template(sx.AsList(l[1]), envs, rounds)
	}
	base := sx.AsList(l[1])
	text := sx.AsString(base[0])
	tree := treeFromSX(base[3])
	calc := calculator.NewExpressionCalculator()
	calc.SetVariantOperations(recOps{})
	calc.SetAutoVariables(false)
	var out sx.List
	fail := ""
	if err := calc.SetExpression(text); err != nil {
		code, _ := errCode(err)
		for r := 0; r < rounds*len(envs); r++ {
			out = append(out, sx.L(sx.I(1), sx.I(code)))
		}
		return out, ""
	}
	if kind == 0 {
		for r := 0; r < rounds; r++ {
			for _, e := range envs {
				out = append(out, evalSym(calc, e))
			}
		}
	} else {
		// one goroutine per environment, all on the same compiled calculator
		res := make([][]sx.SX, len(envs))
		gpanic := make([]string, len(envs))
		var wg sync.WaitGroup
		for gi, e := range envs {
			wg.Add(1)
			go func(gi int, e sx.SX) {
				defer wg.Done()
				defer func() {
					if p := recover(); p != nil {
						gpanic[gi] = fmt.Sprint(p)
						for len(res[gi]) < rounds {
							res[gi] = append(res[gi], PanicMark)
						}
					}
				}()
				for r := 0; r < rounds; r++ {
					res[gi] = append(res[gi], evalSym(calc, e))
				}
			}(gi, e)
		}
		wg.Wait()
		for gi, p := range gpanic {
			if p != "" && fail == "" {
				fail = fmt.Sprintf("goroutine %d evaluating the shared compiled expression panicked: %s", gi, p)
			}
		}
		for r := 0; r < rounds; r++ {
			for gi := range envs {
				out = append(out, res[gi][r])
			}
		}
		// the sequential results, from a fresh calculator
		seq := calculator.NewExpressionCalculator()
		seq.SetVariantOperations(recOps{})
		seq.SetAutoVariables(false)
		if seq.SetExpression(text) == nil {
			for gi, e := range envs {
				want := sx.Text(evalSym(seq, e))
				for r := 0; r < rounds && fail == ""; r++ {
					if sx.Text(res[gi][r]) != want {
						fail = fmt.Sprintf("goroutine %d, evaluation %d returned %s, the sequential result is %s", gi, r, sx.Text(res[gi][r]), want)
					}
				}
			}
		}
		// goroutines that each own their instances
		var wg2 sync.WaitGroup
		errs := make([]string, 4)
		for g := 0; g < 4; g++ {
			wg2.Add(1)
			go func(g int) {
				defer wg2.Done()
				defer func() {
					if p := recover(); p != nil {
						errs[g] = "a goroutine owning its own instances panicked: " + fmt.Sprint(p)
					}
				}()
				tk := ctok.NewExpressionTokenizer()
				a := tokensSX(tk.TokenizeBuffer(text))
				c2 := calculator.NewExpressionCalculator()
				c2.SetVariantOperations(recOps{})
				c2.SetAutoVariables(false)
				if c2.SetExpression(text) == nil {
					if sx.Text(evalSym(c2, envs[0])) != sx.Text(res[0][0]) {
						errs[g] = "a goroutine owning its own calculator got a different result"
					}
				}
				tp := mustache.NewMustacheTemplate()
				if tp.SetTemplate("x{{#a}}{{b}}{{/a}}") == nil {
					if s, _ := tp.EvaluateWithVariables(map[string]string{"a": "1", "b": fmt.Sprint(g)}); s != "x"+fmt.Sprint(g) {
						errs[g] = "a goroutine owning its own template got " + s
					}
				}
				b := tokensSX(ctok.NewExpressionTokenizer().TokenizeBuffer(text))
				if sx.Text(a) != sx.Text(b) {
					errs[g] = "a goroutine owning its own tokenizer got different tokens"
				}
			}(g)
		}
		wg2.Wait()
		for _, e := range errs {
			if e != "" && fail == "" {
				fail = e
			}
		}
		// the clock-free random function from several goroutines: one shared compiled expression, separate variable collections
		rc := calculator.NewExpressionCalculator()
		if rc.SetExpression("x + Trunc(Rnd()) + Trunc(Random())") == nil {
			var wg3 sync.WaitGroup
			rerr := make([]string, 4)
			for g := 0; g < 4; g++ {
				wg3.Add(1)
				go func(g int) {
					defer wg3.Done()
					defer func() {
						if p := recover(); p != nil {
							rerr[g] = "a goroutine evaluating Rnd() panicked: " + fmt.Sprint(p)
						}
					}()
					vars := variables.NewVariableCollection()
					vars.Add(variables.NewVariable("x", variants.VariantFromInteger(g)))
					for k := 0; k < 20; k++ {
						r, err := rc.EvaluateUsingVariables(vars)
						if err != nil {
							rerr[g] = "x + Trunc(Rnd()) + Trunc(Random()) failed in a goroutine: " + err.Error()
						} else if r.AsInteger() != g {
							rerr[g] = fmt.Sprintf("x + Trunc(Rnd()) + Trunc(Random()) with x = %d returned %s", g, sx.Text(valSX(r)))
						}
					}
				}(g)
			}
			wg3.Wait()
			for _, e := range rerr {
				if e != "" && fail == "" {
					fail = e
				}
			}
		}
		c19Once.Do(func() {
			c19Isolation = probeIsolation()
			if c19Isolation == "" {
				c19Isolation = probeFunctionPurity()
			}
			if c19Isolation == "" {
				c19Isolation = probeManyVariables()
			}
			if c19Isolation == "" {
				c19Isolation = probeReuse()
			}
		})
		if c19Isolation != "" && fail == "" {
			fail = c19Isolation
		}
	}
	// real operators: nothing is modified, equal inputs give equal results
	if tree != nil && fail == "" {
		fail = realPurity(text, tree)
	}
	return out, fail
}

func snapshotVars(vars *variables.VariableCollection) string {
	var sb strings.Builder
	for _, v := range vars.GetAll() {
		sb.WriteString(v.Name() + "=" + sx.Text(valSX(v.Value())) + ";")
	}
	return sb.String()
}

func realPurity(text string, tree *Tree) string {
	h := fnv.New64a()
	h.Write([]byte(text))
	rnd := rand.New(rand.NewSource(int64(h.Sum64())))
	rc := calculator.NewExpressionCalculator()
	if err := rc.SetExpression(text); err != nil {
		return ""
	}
	vals := realValues()
	vals = append(vals, variants.VariantFromDouble(3), variants.VariantFromDouble(-1.5), variants.VariantFromFloat(2))
	mk := func() *variables.VariableCollection {
		vars := variables.NewVariableCollection()
		for _, n := range []string{"a", "b", "c", "x1", "_y", "q id", "Z", "é1"} {
			vars.Add(variables.NewVariable(n, vals[rnd.Intn(len(vals))]))
		}
		return vars
	}
	sets := []*variables.VariableCollection{mk(), mk(), mk()}
	prog := func() string { return sx.Text(renderRPNcalc(rc)) }
	progBefore := prog()
	nfuncs := rc.DefaultFunctions().Length()
	first := make([]string, len(sets))
	for round := 0; round < 3; round++ {
		for si, vars := range sets {
			before := snapshotVars(vars)
			r, err := rc.EvaluateUsingVariables(vars)
			if after := snapshotVars(vars); after != before {
				return fmt.Sprintf("evaluating %s changed the variable values from %s to %s", sx.Quote(text), before, after)
			}
			o, _ := resSX(r, err)
			if err != nil {
				o = sx.L(sx.I(1), sx.S(codeOf(err)))
			}
			if round == 0 {
				first[si] = sx.Text(o)
			} else if first[si] != sx.Text(o) {
				return fmt.Sprintf("evaluating %s again with equal variable values gave %s instead of %s", sx.Quote(text), sx.Text(o), first[si])
			}
		}
	}
	// equal inputs, equal results - also after the collection is edited: a collection that went through evaluations and
	// a twin with the same content that never did are edited alike and must keep giving equal results
	for _, used := range sets {
		twin := variables.NewVariableCollection()
		for _, v := range used.GetAll() {
			twin.Add(variables.NewVariable(v.Name(), v.Value()))
		}
		for used.Length() > 2 {
			k := rnd.Intn(used.Length() - 1)
			used.Remove(k)
			twin.Remove(k)
			r1, e1 := rc.EvaluateUsingVariables(used)
			fresh := calculator.NewExpressionCalculator()
			fresh.SetExpression(text)
			r2, e2 := fresh.EvaluateUsingVariables(twin)
			o1, _ := resSX(r1, e1)
			o2, _ := resSX(r2, e2)
			if e1 != nil {
				o1 = sx.L(sx.I(1), sx.S(codeOf(e1)))
			}
			if e2 != nil {
				o2 = sx.L(sx.I(1), sx.S(codeOf(e2)))
			}
			if sx.Text(o1) != sx.Text(o2) {
				return fmt.Sprintf("after removing entry %d from a collection that went through evaluations of %s and from a twin with equal content, evaluation gives %s with the former and %s with the twin (%s)", k, sx.Quote(text), sx.Text(o1), sx.Text(o2), snapshotVars(twin))
			}
		}
	}
	// variables created without a value (automatic variables, Locate) and then given one in place: two calculators and
	// two collections do not interfere, and the package-level null constant stays null
	{
		c1, c2 := calculator.NewExpressionCalculator(), calculator.NewExpressionCalculator()
		if c1.SetExpression(text) == nil && c2.SetExpression(text) == nil && c1.DefaultVariables().Length() > 0 {
			k := rnd.Intn(c1.DefaultVariables().Length())
			v1 := c1.DefaultVariables().Get(k)
			before2 := snapshotVars(c2.DefaultVariables().(*variables.VariableCollection))
			v1.Value().SetAsInteger(41)
			if !variants.Empty.IsNull() {
				variants.Empty.Clear()
				return "writing a value in place into an automatic variable of one calculator changed the package-level constant variants.Empty"
			}
			if after2 := snapshotVars(c2.DefaultVariables().(*variables.VariableCollection)); after2 != before2 {
				return fmt.Sprintf("writing a value in place into an automatic variable of one calculator changed the variables of another calculator from %s to %s", before2, after2)
			}
			other := variables.NewVariableCollection()
			if l := other.Locate("fresh_one"); l != nil && !l.Value().IsNull() {
				return "a variable created by Locate starts with the value " + sx.Text(valSX(l.Value()))
			}
		}
	}
	if prog() != progBefore {
		return "evaluation modified the compiled program or its constants"
	}
	if rc.DefaultFunctions().Length() != nfuncs {
		return "evaluation modified the function table"
	}
	return ""
}

func renderRPNcalc(c *calculator.ExpressionCalculator) sx.SX {
	var rpn sx.List
	for _, t := range c.ResultTokens() {
		vt, payload := variantPayload(t.Value())
		rpn = append(rpn, sx.L(sx.N(t.Type()), sx.N(vt), payload, sx.N(t.Line()), sx.N(t.Column())))
	}
	return rpn
}

func runC19Template(base sx.List, envs sx.List, rounds int) (sx.SX, string) {
	text := sx.AsString(base[0])
	t := mustache.NewMustacheTemplate()
	t.SetAutoVariables(false)
	var out sx.List
	if err := t.SetTemplate(text); err != nil {
		c, ok := mErrCodes[codeOf(err)]
		if !ok {
			c = 99
		}
		for r := 0; r < rounds*len(envs); r++ {
			out = append(out, sx.L(sx.I(1), sx.I(c)))
		}
		return out, ""
	}
	p := mustache.NewMustacheTemplate()
	p.SetTemplate(text)
	var names sx.List
	for k := range p.DefaultVariables() {
		_ = k
	}
	pp := mparsersNames(text)
	for _, n := range pp {
		names = append(names, sx.S(n))
	}
	fail := ""
	tokensBefore := fmt.Sprint(len(t.ResultTokens()))
	for r := 0; r < rounds; r++ {
		for _, e := range envs {
			vars := map[string]string{}
			for _, b := range sx.AsList(e) {
				bb := sx.AsList(b)
				vars[sx.AsString(bb[0])] = sx.AsString(bb[1])
			}
			n := len(vars)
			s, err := t.EvaluateWithVariables(vars)
			if len(vars) != n && fail == "" {
				fail = "rendering modified the variable map"
			}
			if err != nil {
				out = append(out, sx.L(sx.I(1), sx.I(98)))
			} else {
				out = append(out, sx.L(sx.I(0), sx.S(s), names))
			}
		}
	}
	if fmt.Sprint(len(t.ResultTokens())) != tokensBefore && fail == "" {
		fail = "rendering modified the compiled template"
	}
	return out, fail
}

func probeK1() string {
	t := mustache.NewMustacheTemplate()
	if t.SetTemplate("{{a}}") != nil {
		return ""
	}
	seen := map[string]bool{}
	for i := 0; i < 60; i++ {
		s, _ := t.EvaluateWithVariables(map[string]string{"A": "1", "a": "2"})
		seen[s] = true
	}
	if len(seen) > 1 {
		return "[K1] template {{a}} with variables {A:1, a:2} renders both 1 and 2 on repeated evaluation (Go map iteration order)"
	}
	return ""
}
