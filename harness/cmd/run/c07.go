package main

import (
	"fmt"
	"math"
	"time"

	"harness/sx"

	"github.com/pip-services3-gox/pip-services3-expressions-gox/variants"
)

// C07 — variant conversions. input = (manager value (target ...) oracle); output = (result ...) one per step, stopping at the first error
var typeNames = []string{"Null", "Integer", "Long", "Float", "Double", "String", "Boolean", "DateTime", "TimeSpan", "Object", "Array"}

func init() {
	register(&Prop{ID: "C07", Gen: genC07, Run: runC07,
		Human: func(in sx.SX) string {
			l := sx.AsList(in)
			s := fmt.Sprintf("%s manager: %s", []string{"type-unsafe", "type-safe"}[sx.AsInt(l[0])], sx.Text(l[1]))
			for _, t := range sx.AsList(l[2]) {
				s += " -> " + typeNames[sx.AsInt(t)]
			}
			return s
		},
		Rule: "every value of the ~60-value boundary pool x all 11 target types x both managers (single conversions), and every two-step chain value -> T -> type(value) for all 11 intermediate types T (round trips); non-trivial = target type differs from the value's type; distinct by input hash"})
}

func c07Input(safe bool, v *variants.Variant, targets []int) sx.SX {
	var orc sx.List
	seen := map[string]bool{}
	oracleFor(v, &orc, seen)
	// intermediate values of the chain need their own oracle entries (the answers always come from the host)
	m := newManager(safe)
	cur := v
	var ts sx.List
	for _, t := range targets {
		ts = append(ts, sx.N(t))
		if cur != nil {
			next, err := m.Convert(cur, variants.VariantType(t))
			if err != nil || next == nil {
				cur = nil
			} else {
				cur = next
				oracleFor(cur, &orc, seen)
			}
		}
	}
	return sx.L(sx.B(safe), valSXin(v), ts, orc)
}

func genC07(ctx *Ctx) {
	pool := valuePool()
	for _, v := range pool {
		for t := 0; t <= 10; t++ {
			if v.Type() == variants.Integer || v.Type() == variants.Long {
				if t == int(variants.DateTime) && farDate(variants.VariantFromDateTime(time.Unix(0, 0)), v) {
					continue
				}
			}
			for _, safe := range []bool{false, true} {
				ctx.Count("single:" + typeNames[t])
				ctx.Input(c07Input(safe, v, []int{t}), t != int(v.Type()))
				ctx.Count("chain-via:" + typeNames[t])
				ctx.Input(c07Input(safe, v, []int{t, int(v.Type())}), t != int(v.Type()))
			}
		}
	}
	// a few three-step chains through string
	for i := 0; i < ctx.N/4; i++ {
		v := pool[ctx.Rnd.Intn(len(pool))]
		chain := []int{ctx.Rnd.Intn(11), ctx.Rnd.Intn(11), ctx.Rnd.Intn(11)}
		skip := false
		cur := v
		m := newManager(false)
		for _, t := range chain {
			if cur == nil {
				break
			}
			if t == int(variants.DateTime) && farDate(variants.VariantFromDateTime(time.Unix(0, 0)), cur) {
				skip = true
			}
			cur, _ = m.Convert(cur, variants.VariantType(t))
		}
		if skip {
			continue
		}
		ctx.Count("chain3")
		ctx.Input(c07Input(ctx.Rnd.Intn(4) == 0, v, chain), true)
	}
}

func roundTrips(v *variants.Variant, via variants.VariantType) bool {
	abs := func(x int64) int64 {
		if x < 0 {
			return -x
		}
		return x
	}
	var z int64
	isInt := false
	switch v.Type() {
	case variants.Integer:
		z, isInt = int64(v.AsInteger()), true
	case variants.Long:
		z, isInt = v.AsLong(), true
	}
	switch {
	case isInt && (via == variants.Integer || via == variants.Long || via == variants.String):
		return true
	case isInt && via == variants.Double:
		return z != math.MinInt64 && abs(z) <= 1<<53
	case isInt && via == variants.TimeSpan:
		return z != math.MinInt64 && abs(z) <= math.MaxInt64/1000000
	case isInt && via == variants.DateTime:
		return z != math.MinInt64 && abs(z) <= 1<<40
	case v.Type() == variants.Float && via == variants.Double:
		return v.AsFloat() == v.AsFloat() // not NaN (NaN equals nothing)
	case v.Type() == variants.Boolean && (via == variants.Integer || via == variants.Long || via == variants.Float || via == variants.Double || via == variants.String):
		return true
	}
	return false
}

var c07Managers = map[bool]variants.IVariantOperations{}
var c07Scratch = variants.EmptyVariant()

// c07Other: a different value of the same variant type
func c07Other(v *variants.Variant) *variants.Variant {
	switch v.Type() {
	case variants.Integer:
		return variants.VariantFromInteger(v.AsInteger() ^ 5)
	case variants.Long:
		return variants.VariantFromLong(v.AsLong() ^ 5)
	case variants.Float:
		return variants.VariantFromFloat(v.AsFloat()/2 + 1)
	case variants.Double:
		return variants.VariantFromDouble(v.AsDouble()/2 + 1)
	case variants.String:
		return variants.VariantFromString(v.AsString() + "1")
	case variants.Boolean:
		return variants.VariantFromBoolean(!v.AsBoolean())
	case variants.TimeSpan:
		return variants.VariantFromTimeSpan(v.AsTimeSpan() + 1000000)
	case variants.DateTime:
		return variants.VariantFromDateTime(v.AsDateTime().Add(1000000000))
	}
	return variants.EmptyVariant()
}

func runC07(in sx.SX) (sx.SX, string) {
	l := sx.AsList(in)
	safe := sx.AsBool(l[0])
	v := valFromSX(l[1])
	m := newManager(safe)
	um := newManager(false)
	var out sx.List
	fail := ""
	cur := v
	targets := sx.AsList(l[2])
	for i, t := range targets {
		tt := variants.VariantType(sx.AsInt(t))
		res, err := m.Convert(cur, tt)
		o, f := resSX(res, err)
		if f != "" && fail == "" {
			fail = fmt.Sprintf("step %d: %s", i, f)
		}
		out = append(out, o)
		if err != nil || res == nil {
			// the type-safe manager reports everything outside its whitelist as an error; inside it, it must succeed
			if safe && fail == "" && safeAllowed(cur.Type(), tt) {
				fail = fmt.Sprintf("step %d: the type-safe manager rejected the permitted conversion %s -> %s", i, typeNames[cur.Type()], typeNames[tt])
			}
			break
		}
		if fail == "" {
			if safe && !safeAllowed(cur.Type(), tt) {
				fail = fmt.Sprintf("step %d: the type-safe manager permitted %s -> %s", i, typeNames[cur.Type()], typeNames[tt])
			}
			unchanged := sx.Text(valSX(res)) == sx.Text(valSX(cur))
			if res.Type() != tt && !((tt == variants.Object || tt == cur.Type()) && unchanged) {
				fail = fmt.Sprintf("step %d: conversion to %s delivered a %s", i, typeNames[tt], typeNames[res.Type()])
			}
			if safe {
				if ur, uerr := um.Convert(cur, tt); uerr != nil || sx.Text(valSX(ur)) != sx.Text(valSX(res)) {
					fail = fmt.Sprintf("step %d: the type-safe manager succeeded with %s, the type-unsafe manager gives %s", i, sx.Text(valSX(res)), sx.Text(valSX(ur)))
				}
			}
		}
		cur = res
	}
	// what Convert returns (when it is not the argument itself) belongs to the caller
	if fail == "" && len(targets) > 0 {
		tt := variants.VariantType(sx.AsInt(targets[0]))
		if r1, e1 := m.Convert(v, tt); e1 == nil && r1 != nil && r1 != v {
			before := sx.Text(valSX(v))
			o1, _ := resSX(r1, nil)
			r1.SetAsInteger(424242)
			if !variants.Empty.IsNull() {
				fail = "writing into the result of Convert changed the package-level constant variants.Empty to " + sx.Text(valSX(variants.Empty))
				variants.Empty.Clear()
			} else if sx.Text(valSX(v)) != before {
				fail = "writing into the result of Convert changed the argument"
			} else if r2, e2 := m.Convert(v, tt); true {
				if o2, _ := resSX(r2, e2); sx.Text(o2) != sx.Text(o1) {
					fail = fmt.Sprintf("after the caller wrote into the first result, Convert to %s returns %s instead of %s", typeNames[tt], sx.Text(o2), sx.Text(o1))
				}
			}
		}
	}
	// one manager object and one variant object that live through the whole run: the variant is given the value in
	// place and converted by the long-lived manager - the outcome may not depend on what either did before
	if fail == "" && len(targets) > 0 {
		lm := c07Managers[safe]
		if lm == nil {
			lm = newManager(safe)
			c07Managers[safe] = lm
		}
		tt := variants.VariantType(sx.AsInt(targets[0]))
		for round := 0; round < 2 && fail == ""; round++ {
			c07Scratch.Assign(v)
			r1, e1 := lm.Convert(c07Scratch, tt)
			o1, _ := resSX(r1, e1)
			if sx.Text(o1) != sx.Text(out[0]) {
				fail = fmt.Sprintf("a manager object and a variant object used before: Convert to %s gives %s, fresh objects give %s", typeNames[tt], sx.Text(o1), sx.Text(out[0]))
			}
			// same type, other value, same objects: the next round must see the new value
			other := c07Other(v)
			c07Scratch.Assign(other)
			r2, e2 := lm.Convert(c07Scratch, tt)
			r3, e3 := newManager(safe).Convert(other, tt)
			o2, _ := resSX(r2, e2)
			o3, _ := resSX(r3, e3)
			if fail == "" && sx.Text(o2) != sx.Text(o3) {
				fail = fmt.Sprintf("the same variant object given %s in place and converted to %s by the same manager object gives %s, fresh objects give %s", sx.Text(valSX(other)), typeNames[tt], sx.Text(o2), sx.Text(o3))
			}
		}
	}
	// round trip: value -> T -> type(value)
	if fail == "" && len(targets) == 2 && len(out) == 2 && int(sx.AsInt(targets[1])) == int(v.Type()) && !safe {
		via := variants.VariantType(sx.AsInt(targets[0]))
		if roundTrips(v, via) && sx.Text(valSX(cur)) != sx.Text(valSX(v)) {
			fail = fmt.Sprintf("round trip through %s returned %s instead of the original", typeNames[via], sx.Text(valSX(cur)))
		}
	}
	return out, fail
}

func safeAllowed(from, to variants.VariantType) bool {
	if to == variants.Null || to == variants.Object || to == from {
		return true
	}
	switch from {
	case variants.Integer:
		return to == variants.Long || to == variants.Float || to == variants.Double
	case variants.Long:
		return to == variants.Float || to == variants.Double
	case variants.Float:
		return to == variants.Double
	}
	return false
}
