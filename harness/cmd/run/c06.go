package main

import (
	"fmt"
	"github.com/pip-services3-gox/pip-services3-commons-gox/convert"
	"math"
	"strconv"
	"strings"

	"harness/sx"

	"github.com/pip-services3-gox/pip-services3-expressions-gox/variants"
)

// C06 — variant operators. input = (manager op a b oracle); output = (0 value) | (1 code)
var opNames = []string{"", "Add", "Sub", "Mul", "Div", "Mod", "Pow", "And", "Or", "Xor", "Lsh", "Rsh", "Not", "Negative", "Equal", "NotEqual", "More", "Less", "MoreEqual", "LessEqual", "In", "GetElement"}

func applyOp(m variants.IVariantOperations, op int, a, b *variants.Variant) (*variants.Variant, error) {
	switch op {
	case 1:
		return m.Add(a, b)
	case 2:
		return m.Sub(a, b)
	case 3:
		return m.Mul(a, b)
	case 4:
		return m.Div(a, b)
	case 5:
		return m.Mod(a, b)
	case 6:
		return m.Pow(a, b)
	case 7:
		return m.And(a, b)
	case 8:
		return m.Or(a, b)
	case 9:
		return m.Xor(a, b)
	case 10:
		return m.Lsh(a, b)
	case 11:
		return m.Rsh(a, b)
	case 12:
		return m.Not(a)
	case 13:
		return m.Negative(a)
	case 14:
		return m.Equal(a, b)
	case 15:
		return m.NotEqual(a, b)
	case 16:
		return m.More(a, b)
	case 17:
		return m.Less(a, b)
	case 18:
		return m.MoreEqual(a, b)
	case 19:
		return m.LessEqual(a, b)
	case 20:
		return m.In(a, b)
	}
	return m.GetElement(a, b)
}

func init() {
	register(&Prop{ID: "C06", Gen: genC06, Run: runC06,
		Human: func(in sx.SX) string {
			l := sx.AsList(in)
			return fmt.Sprintf("%s manager: %s(%s, %s)", []string{"type-unsafe", "type-safe"}[sx.AsInt(l[0])], opNames[sx.AsInt(l[1])], sx.Text(l[2]), sx.Text(l[3]))
		},
		Rule: "ordered pairs from ~60 boundary values of every variant type (extremes, zero, negative, 2^53+-1, empty string, numeric and non-numeric strings, NaN, +-Inf, epoch and pre-epoch date-times, time spans, objects, arrays incl. empty and with nulls) x the 21 operators x both managers: quick = a random third of the pairs per operator, thorough = all; value encoding (type payload) with floats as bit patterns; non-trivial = operands of different types, or an extreme / NaN / zero-divisor operand; distinct by input hash"})
}

func c06Input(safe bool, op int, a, b *variants.Variant) sx.SX {
	var orc sx.List
	seen := map[string]bool{}
	oracleFor(a, &orc, seen)
	oracleFor(b, &orc, seen)
	if op == 6 {
		powOracle(a, b, &orc)
	}
	return sx.L(sx.B(safe), sx.N(op), valSXin(a), valSXin(b), orc)
}

func farDate(a, b *variants.Variant) bool {
	far := func(v *variants.Variant) bool {
		switch v.Type() {
		case variants.Integer:
			x := v.AsInteger()
			return x > 1<<40 || x < -(1<<40)
		case variants.Long:
			x := v.AsLong()
			return x > 1<<40 || x < -(1<<40)
		}
		return false
	}
	return (a.Type() == variants.DateTime && far(b)) || (b.Type() == variants.DateTime && far(a))
}

func genC06(ctx *Ctx) {
	pool := valuePool()
	// every index around the ends of strings and lists whose byte length, rune count and element count differ
	for _, a := range []*variants.Variant{variants.VariantFromString("日本"), variants.VariantFromString("héé"), variants.VariantFromString("😀"), variants.VariantFromString(""), variants.VariantFromString("ab"),
		variants.VariantFromArray([]*variants.Variant{variants.VariantFromInteger(1), variants.VariantFromString("x")}), variants.VariantFromArray(nil)} {
		for idx := -2; idx <= 9; idx++ {
			for _, safe := range []bool{false, true} {
				ctx.Count("op:index-boundary")
				ctx.Input(c06Input(safe, 21, a, variants.VariantFromInteger(idx)), true)
				ctx.Input(c06Input(safe, 21, a, variants.VariantFromLong(int64(idx))), true)
			}
		}
	}
	// long strings (beyond 128 and 256 bytes) with multi-byte characters before, at and after the index
	for _, n := range []int{60, 127, 131, 200, 260, 300} {
		var sb strings.Builder
		sb.WriteString("é")
		for sb.Len() < n {
			sb.WriteString([]string{"0", "1", "日", "3", "4", "5", "6", "é", "8", "9"}[sb.Len()%10])
		}
		str := variants.VariantFromString(sb.String())
		runes := len([]rune(sb.String()))
		for _, idx := range []int{0, 1, 2, 3, runes / 2, runes - 2, runes - 1, runes, runes + 1, sb.Len() - 1, sb.Len(), sb.Len() + 1, 64, 128, 129} {
			for _, safe := range []bool{false, true} {
				ctx.Count("op:index-long-string")
				ctx.Input(c06Input(safe, 21, str, variants.VariantFromInteger(idx)), true)
			}
		}
	}
	// lists of 70 .. 300 elements: membership of an element near the end / absent, indexing at the ends
	for _, n := range []int{70, 130, 300} {
		es := make([]*variants.Variant, n)
		for i := range es {
			es[i] = variants.VariantFromInteger(i * 3)
		}
		es[n/2] = variants.VariantFromString("mid")
		arr := variants.VariantFromArray(es)
		for _, safe := range []bool{false, true} {
			for _, x := range []*variants.Variant{variants.VariantFromInteger((n - 1) * 3), variants.VariantFromInteger(1), variants.VariantFromInteger(0), variants.VariantFromLong(int64((n - 2) * 3))} {
				ctx.Count("op:in-long-list")
				ctx.Input(c06Input(safe, 20, arr, x), true)
			}
			for _, idx := range []int{0, n / 2, n - 1, n, n + 1, 64, 128, 256} {
				ctx.Count("op:index-long-list")
				ctx.Input(c06Input(safe, 21, arr, variants.VariantFromInteger(idx)), true)
			}
		}
	}
	for op := 1; op <= 21; op++ {
		for i, a := range pool {
			for j, b := range pool {
				if (op == 12 || op == 13) && j > 0 {
					continue
				}
				if farDate(a, b) {
					continue // date-times further than 2^40 seconds from the epoch overflow time.Time itself: outside the model
				}
				related := a.Type() == b.Type() || (a.Type() == variants.DateTime && (b.Type() == variants.Long || b.Type() == variants.Integer))
				indexing := (op == 21 && (a.Type() == variants.String || a.Type() == variants.Array) && (b.Type() == variants.Integer || b.Type() == variants.Long)) ||
					(op == 20 && a.Type() == variants.Array) || op == 12 || op == 13
				isNum := func(v *variants.Variant) bool {
					return v.Type() == variants.Integer || v.Type() == variants.Long || v.Type() == variants.Float || v.Type() == variants.Double
				}
				power := op == 6 && isNum(a) && isNum(b) // '^' is true exponentiation for ALL numeric pairs: every pair is generated
				if !ctx.Thorough && !indexing && !power && i != j && !(related && op >= 14 && op <= 19) && (i*131+j*17+op)%7 != int(ctx.Rnd.Int63()%7) {
					continue
				}
				for _, safe := range []bool{false, true} {
					nt := a.Type() != b.Type() || i < 1 || (a.Type() == variants.Integer && (i == 7 || i == 8 || j == 1))
					ctx.Count("op:" + opNames[op])
					ctx.Input(c06Input(safe, op, a, b), nt)
				}
			}
		}
	}
}

// hostResult computes, for operands of EQUAL type, what the host arithmetic of that type gives (nil = not defined here).
func hostResult(op int, a, b *variants.Variant) (*variants.Variant, bool) {
	bv := variants.VariantFromBoolean
	switch a.Type() {
	case variants.Integer:
		x, y := a.AsInteger(), b.AsInteger()
		switch op {
		case 1:
			return variants.VariantFromInteger(x + y), true
		case 2:
			return variants.VariantFromInteger(x - y), true
		case 3:
			return variants.VariantFromInteger(x * y), true
		case 4:
			if y != 0 {
				return variants.VariantFromInteger(x / y), true
			}
		case 5:
			if y != 0 {
				return variants.VariantFromInteger(x % y), true
			}
		case 7:
			return variants.VariantFromInteger(x & y), true
		case 8:
			return variants.VariantFromInteger(x | y), true
		case 9:
			return variants.VariantFromInteger(x ^ y), true
		case 14:
			return bv(x == y), true
		case 15:
			return bv(x != y), true
		case 16:
			return bv(x > y), true
		case 17:
			return bv(x < y), true
		case 18:
			return bv(x >= y), true
		case 19:
			return bv(x <= y), true
		}
	case variants.Long:
		x, y := a.AsLong(), b.AsLong()
		switch op {
		case 1:
			return variants.VariantFromLong(x + y), true
		case 2:
			return variants.VariantFromLong(x - y), true
		case 3:
			return variants.VariantFromLong(x * y), true
		case 4:
			if y != 0 {
				return variants.VariantFromLong(x / y), true
			}
		case 5:
			if y != 0 {
				return variants.VariantFromLong(x % y), true
			}
		case 14:
			return bv(x == y), true
		case 17:
			return bv(x < y), true
		}
	case variants.Float:
		x, y := a.AsFloat(), b.AsFloat()
		switch op {
		case 1:
			return variants.VariantFromFloat(x + y), true
		case 2:
			return variants.VariantFromFloat(x - y), true
		case 3:
			return variants.VariantFromFloat(x * y), true
		case 4:
			return variants.VariantFromFloat(x / y), true
		case 14:
			return bv(x == y), true
		case 17:
			return bv(x < y), true
		case 19:
			return bv(x <= y), true
		}
	case variants.Double:
		x, y := a.AsDouble(), b.AsDouble()
		switch op {
		case 1:
			return variants.VariantFromDouble(x + y), true
		case 2:
			return variants.VariantFromDouble(x - y), true
		case 3:
			return variants.VariantFromDouble(x * y), true
		case 4:
			return variants.VariantFromDouble(x / y), true
		case 6:
			return variants.VariantFromDouble(math.Pow(x, y)), true
		case 14:
			return bv(x == y), true
		case 16:
			return bv(x > y), true
		case 17:
			return bv(x < y), true
		}
	case variants.String:
		x, y := a.AsString(), b.AsString()
		switch op {
		case 1:
			return variants.VariantFromString(x + y), true
		case 14:
			return bv(x == y), true
		case 15:
			return bv(x != y), true
		case 16:
			return bv(x > y), true
		case 17:
			return bv(x < y), true
		case 18:
			return bv(x >= y), true
		case 19:
			return bv(x <= y), true
		}
	case variants.Boolean:
		x, y := a.AsBoolean(), b.AsBoolean()
		switch op {
		case 7:
			return bv(x && y), true
		case 8:
			return bv(x || y), true
		case 9:
			return bv(x != y), true
		case 14:
			return bv(x == y), true
		}
	case variants.TimeSpan:
		x, y := a.AsTimeSpan(), b.AsTimeSpan()
		switch op {
		case 1:
			return variants.VariantFromTimeSpan(x + y), true
		case 2:
			return variants.VariantFromTimeSpan(x - y), true
		case 17:
			return bv(x < y), true
		}
	case variants.DateTime:
		x, y := a.AsDateTime(), b.AsDateTime()
		switch op {
		case 2:
			return variants.VariantFromTimeSpan(x.Sub(y)), true
		case 14:
			return bv(x.Equal(y)), true
		case 17:
			return bv(x.Before(y)), true
		}
	}
	return nil, false
}

// hostNumConv converts a numeric value to another numeric type with the host's own conversions (truncation toward
// zero for float -> integer, one rounding for integer -> float); independent of the library's Convert.
func hostNumConv(b *variants.Variant, t variants.VariantType) (*variants.Variant, bool) {
	if t == variants.Boolean && b.Type() == variants.String {
		// a string as a boolean: what the library's converter (commons-gox) makes of it - "yes", "Y", "tRuE", "1" are true
		return variants.VariantFromBoolean(convert.BooleanConverter.ToBoolean(b.AsString())), true
	}
	var f float64
	var i int64
	isf := false
	switch b.Type() {
	case variants.Integer:
		i = int64(b.AsInteger())
	case variants.Long:
		i = b.AsLong()
	case variants.Float:
		f, isf = float64(b.AsFloat()), true
	case variants.Double:
		f, isf = b.AsDouble(), true
	case variants.String:
		// a string that is a decimal integer (sign, leading zeros allowed) converts to that integer
		n, err := strconv.ParseInt(b.AsString(), 10, 64)
		if err != nil || (t != variants.Integer && t != variants.Long) {
			return nil, false
		}
		i = n
	default:
		return nil, false
	}
	if isf && (f != f || math.Abs(f) >= 1<<62) {
		return nil, false // the host's float -> integer conversion is not defined there
	}
	switch t {
	case variants.Integer:
		if isf {
			return variants.VariantFromInteger(int(f)), true
		}
		return variants.VariantFromInteger(int(i)), true
	case variants.Long:
		if isf {
			return variants.VariantFromLong(int64(f)), true
		}
		return variants.VariantFromLong(i), true
	case variants.Float:
		if isf {
			return variants.VariantFromFloat(float32(f)), true
		}
		return variants.VariantFromFloat(float32(i)), true
	case variants.Double:
		if isf {
			return variants.VariantFromDouble(f), true
		}
		return variants.VariantFromDouble(float64(i)), true
	}
	return nil, false
}

func isBoolRes(v *variants.Variant, err error) (bool, bool) {
	if err != nil || v == nil || v.Type() != variants.Boolean {
		return false, false
	}
	return v.AsBoolean(), true
}

var c06Managers = map[bool]variants.IVariantOperations{}
var c06ScratchA, c06ScratchB = variants.EmptyVariant(), variants.EmptyVariant()

func runC06(in sx.SX) (sx.SX, string) {
	l := sx.AsList(in)
	safe, op := sx.AsBool(l[0]), int(sx.AsInt(l[1]))
	a, b := valFromSX(l[2]), valFromSX(l[3])
	m := newManager(safe)
	res, err := applyOp(m, op, a, b)
	obs, fail := resSX(res, err)
	binary := op != 12 && op != 13
	// Null propagates through every operator except =, <> and NOT
	if fail == "" && binary && op != 14 && op != 15 && (a.Type() == variants.Null || b.Type() == variants.Null) {
		if err != nil || res.Type() != variants.Null {
			fail = "Null does not propagate: " + sx.Text(obs)
		}
	}
	// host arithmetic of the first operand's type, on operands of equal type
	if fail == "" && binary && a.Type() == b.Type() {
		if want, ok := hostResult(op, a, b); ok {
			w, _ := resSX(want, nil)
			if sx.Text(w) != sx.Text(obs) {
				fail = fmt.Sprintf("returned %s, the host arithmetic of the type gives %s", sx.Text(obs), sx.Text(w))
			}
		}
	}
	// unary minus is the host's negation of the type (the sign of zero included)
	if fail == "" && op == 13 && err == nil {
		var want *variants.Variant
		switch a.Type() {
		case variants.Integer:
			want = variants.VariantFromInteger(-a.AsInteger())
		case variants.Long:
			want = variants.VariantFromLong(-a.AsLong())
		case variants.Float:
			want = variants.VariantFromFloat(-a.AsFloat())
		case variants.Double:
			want = variants.VariantFromDouble(-a.AsDouble())
		}
		if want != nil {
			if w, _ := resSX(want, nil); sx.Text(w) != sx.Text(obs) {
				fail = fmt.Sprintf("-a returned %s, the host negation gives %s", sx.Text(obs), sx.Text(w))
			}
		}
	}
	// indexing follows list semantics: element i of a list, character i of a string (characters, not bytes), an error
	// outside 0 .. length-1
	if fail == "" && op == 21 && (b.Type() == variants.Integer || (b.Type() == variants.Long && !safe)) && (a.Type() == variants.String || a.Type() == variants.Array) { // (the type-safe manager refuses a long index: no narrowing)
		idx := int64(0)
		if b.Type() == variants.Integer {
			idx = int64(b.AsInteger())
		} else {
			idx = b.AsLong()
		}
		if a.Type() == variants.String {
			rs := []rune(a.AsString())
			if idx < 0 || idx >= int64(len(rs)) {
				if err == nil {
					fail = fmt.Sprintf("character %d of a string of %d characters returned %s instead of an error", idx, len(rs), sx.Text(obs))
				}
			} else if err != nil || res == nil || res.Type() != variants.String || res.AsString() != string(rs[idx]) {
				fail = fmt.Sprintf("character %d of a string of %d characters (%d bytes) is %q, the operator returned %s", idx, len(rs), len(a.AsString()), string(rs[idx]), sx.Text(obs))
			}
		} else {
			es := a.AsArray()
			if idx < 0 || idx >= int64(len(es)) {
				if err == nil {
					fail = fmt.Sprintf("element %d of a list of %d elements returned %s instead of an error", idx, len(es), sx.Text(obs))
				}
			} else if err != nil || res == nil || sx.Text(valSX(res)) != sx.Text(valSX(es[idx])) {
				fail = fmt.Sprintf("element %d of a list of %d elements is %s, the operator returned %s", idx, len(es), sx.Text(valSX(es[idx])), sx.Text(obs))
			}
		}
	}
	// membership follows list semantics: In(list, x) iff some element equals x (by the = operator of the same manager)
	if fail == "" && op == 20 && err == nil && a.Type() == variants.Array && b.Type() != variants.Null && b.Type() != variants.Array {
		any, clean := false, true
		for _, e := range a.AsArray() {
			r, eerr := m.Equal(b, e)
			if eerr != nil || r == nil || r.Type() != variants.Boolean {
				clean = false
				break
			}
			any = any || r.AsBoolean()
		}
		if clean && (res.Type() != variants.Boolean || res.AsBoolean() != any) {
			fail = fmt.Sprintf("In(list, x) returned %s although (x = element) is %v for some element", sx.Text(obs), any)
		}
	}
	// ... and an undefined comparison is an error, not "no": when x = element is undefined for some element and true for
	// none, In(list, x) does not answer false
	if fail == "" && op == 20 && err == nil && a.Type() == variants.Array && b.Type() != variants.Null && b.Type() != variants.Array {
		undefined, anyTrue := false, false
		for _, e := range a.AsArray() {
			r, eerr := m.Equal(b, e)
			if eerr != nil {
				undefined = true
			} else if r != nil && r.Type() == variants.Boolean && r.AsBoolean() {
				anyTrue = true
			}
		}
		if undefined && !anyTrue {
			fail = fmt.Sprintf("In(list, x) returned %s although x = element is undefined (an error) for an element and true for none", sx.Text(obs))
		}
	}
	// numeric operands of different types: the second is converted by the host's own conversion, then the host
	// arithmetic of the first operand's type applies (type-unsafe manager; the type-safe one may refuse instead)
	if fail == "" && binary && a.Type() != b.Type() && err == nil {
		if cb, ok := hostNumConv(b, a.Type()); ok {
			if want, ok := hostResult(op, a, cb); ok {
				w, _ := resSX(want, nil)
				if sx.Text(w) != sx.Text(obs) {
					fail = fmt.Sprintf("returned %s; the host conversion of the second operand followed by the host arithmetic of the first operand's type gives %s", sx.Text(obs), sx.Text(w))
				}
			}
		}
	}
	// the second operand is converted to the first operand's type: op(a, b) = op(a, Convert(b, type(a)))
	if fail == "" && binary && op != 6 && op != 10 && op != 11 && op != 20 && op != 21 && a.Type() != variants.Null && b.Type() != variants.Null {
		if cb, cerr := m.Convert(b, a.Type()); cerr == nil {
			r2, e2 := applyOp(m, op, a, cb)
			o2, _ := resSX(r2, e2)
			if sx.Text(o2) != sx.Text(obs) {
				fail = fmt.Sprintf("op(a, b) = %s differs from op(a, Convert(b, type(a))) = %s", sx.Text(obs), sx.Text(o2))
			}
		} else if err == nil {
			fail = "the second operand cannot be converted to the first operand's type, yet the operator returned " + sx.Text(obs)
		}
	}
	// comparisons are mutually consistent (operands of different types: on the second operand converted to the first's type)
	origB := b
	if fail == "" && op >= 14 && op <= 19 && a.Type() != b.Type() && a.Type() != variants.Null && b.Type() != variants.Null {
		if cb, cerr := m.Convert(b, a.Type()); cerr == nil && cb != nil {
			b = cb
		}
	}
	if fail == "" && a.Type() == b.Type() && a.Type() != variants.Null {
		switch op {
		case 17: // a<b iff b>a
			x, ok1 := isBoolRes(res, err)
			r2, e2 := m.More(b, a)
			if y, ok2 := isBoolRes(r2, e2); ok1 && ok2 && x != y {
				fail = "a<b and b>a disagree"
			}
		case 19: // a<=b iff a<b or a=b
			x, ok1 := isBoolRes(res, err)
			r2, e2 := m.Less(a, b)
			r3, e3 := m.Equal(a, b)
			y, ok2 := isBoolRes(r2, e2)
			z, ok3 := isBoolRes(r3, e3)
			if ok1 && ok2 && ok3 && x != (y || z) {
				fail = "a<=b differs from (a<b or a=b)"
			}
		case 15: // a<>b iff not a=b
			x, ok1 := isBoolRes(res, err)
			r2, e2 := m.Equal(a, b)
			if y, ok2 := isBoolRes(r2, e2); ok1 && ok2 && x == y {
				fail = "a<>b and a=b agree"
			}
		case 16: // a>b iff b<a
			x, ok1 := isBoolRes(res, err)
			r2, e2 := m.Less(b, a)
			if y, ok2 := isBoolRes(r2, e2); ok1 && ok2 && x != y {
				fail = "a>b and b<a disagree"
			}
		case 18: // a>=b iff a>b or a=b, and iff b<=a
			x, ok1 := isBoolRes(res, err)
			r2, e2 := m.More(a, b)
			r3, e3 := m.Equal(a, b)
			r4, e4 := m.LessEqual(b, a)
			y, ok2 := isBoolRes(r2, e2)
			z, ok3 := isBoolRes(r3, e3)
			w, ok4 := isBoolRes(r4, e4)
			if ok1 && ok2 && ok3 && x != (y || z) {
				fail = "a>=b differs from (a>b or a=b)"
			} else if ok1 && ok4 && x != w {
				fail = "a>=b and b<=a disagree"
			}
		}
	}
	b = origB
	// the answer depends on the operands' values, not on their identity: when both operands hold the same value, passing
	// the very same object twice gives what two separate objects give
	if fail == "" && binary && op != 21 && sx.Text(l[2]) == sx.Text(l[3]) {
		r2, e2 := applyOp(m, op, a, a)
		if o2, _ := resSX(r2, e2); sx.Text(o2) != sx.Text(obs) {
			fail = fmt.Sprintf("with the same object as both operands the operator returns %s, with two objects holding that value %s", sx.Text(o2), sx.Text(obs))
		}
	}
	// undefined operations yield an error
	if fail == "" && (op == 4 || op == 5) && (a.Type() == variants.Integer || a.Type() == variants.Long) && strings.HasPrefix(sx.Text(l[3]), "(1 0)") && err == nil {
		fail = "integer division by zero returned a value: " + sx.Text(obs)
	}
	// one manager object and two operand objects that live through the whole run: the operands are given their values
	// in place (Assign) and the long-lived manager applies the operator - the outcome may depend neither on what the
	// objects held before nor on what the manager converted before; then the second operand is given another value of
	// the same type in place and the same call must see the new value
	if fail == "" && binary {
		lm := c06Managers[safe]
		if lm == nil {
			lm = newManager(safe)
			c06Managers[safe] = lm
		}
		for round := 0; round < 2 && fail == ""; round++ {
			c06ScratchA.Assign(a)
			c06ScratchB.Assign(b)
			r1, e1 := applyOp(lm, op, c06ScratchA, c06ScratchB)
			if o1, _ := resSX(r1, e1); sx.Text(o1) != sx.Text(obs) {
				fail = fmt.Sprintf("a manager object and operand objects used before (values given in place by Assign): the operator returns %s, fresh objects give %s", sx.Text(o1), sx.Text(obs))
				break
			}
			other := c07Other(b)
			c06ScratchB.Assign(other)
			r2, e2 := applyOp(lm, op, c06ScratchA, c06ScratchB)
			r3, e3 := applyOp(newManager(safe), op, valFromSX(l[2]), other)
			o2, _ := resSX(r2, e2)
			o3, _ := resSX(r3, e3)
			if sx.Text(o2) != sx.Text(o3) {
				fail = fmt.Sprintf("the second operand object given %s in place: the same manager object returns %s, fresh objects give %s", sx.Text(valSX(other)), sx.Text(o2), sx.Text(o3))
			}
		}
	}
	// what an operator returns belongs to the caller: writing into it in place changes neither the operands, nor the
	// package's shared null constant, nor what the same call returns next time
	if fail == "" && err == nil && res != nil && res != a && res != b && op != 21 { // (indexing returns the element itself)
		beforeA, beforeB := sx.Text(valSX(a)), sx.Text(valSX(b))
		res.SetAsInteger(424242)
		if !variants.Empty.IsNull() {
			fail = "writing into the result of an operator changed the package-level constant variants.Empty to " + sx.Text(valSX(variants.Empty))
			variants.Empty.Clear()
		} else if sx.Text(valSX(a)) != beforeA || sx.Text(valSX(b)) != beforeB {
			fail = "writing into the result of an operator changed an operand"
		} else {
			r2, e2 := applyOp(m, op, a, b)
			if o2, _ := resSX(r2, e2); sx.Text(o2) != sx.Text(obs) {
				fail = fmt.Sprintf("after the caller wrote into the first result, the same call returns %s instead of %s", sx.Text(o2), sx.Text(obs))
			}
		}
	}
	return obs, fail
}
