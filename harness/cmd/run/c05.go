package main

import (
	"fmt"
	"strings"

	"harness/sx"

	"github.com/pip-services3-gox/pip-services3-expressions-gox/calculator"
	"github.com/pip-services3-gox/pip-services3-expressions-gox/calculator/parsers"
	"github.com/pip-services3-gox/pip-services3-expressions-gox/calculator/variables"
	sio "github.com/pip-services3-gox/pip-services3-expressions-gox/io"
	"github.com/pip-services3-gox/pip-services3-expressions-gox/mustache"
	mparsers "github.com/pip-services3-gox/pip-services3-expressions-gox/mustache/parsers"
	"github.com/pip-services3-gox/pip-services3-expressions-gox/tokenizers"
	"github.com/pip-services3-gox/pip-services3-expressions-gox/variants"
)

// C05 — reused instances give history-independent results.
// kind 0: one tokenizer instance, a history of (text, HasNextToken/NextToken call sequence)
// kind 1: one parser and one calculator instance, a history of expressions
func init() {
	register(&Prop{
		ID:   "C05",
		Rule: "tokenizer histories: sequences of 2..6 inputs on ONE instance of each of the four tokenizers, inputs drawn from a pool with every registered multi-character symbol (<= >= <> != << >> {{ }} {{{ }}} CRLF LFCR), every token class, unterminated literals and comments; every ordered pair of pool inputs (thorough) / sampled pairs (quick); each input followed by a random interleaving of HasNextToken/NextToken, aborted early or run past the end; calculator histories: sequences of generated and malformed expressions on ONE parser/calculator; every step compared with a fresh instance; non-trivial = at least two steps with different inputs; distinct by input hash",
		Gen:  genC05,
		Run:  runC05,
		Human: func(in sx.SX) string {
			l := sx.AsList(in)
			if sx.AsInt(l[0]) == 0 {
				var steps []string
				for _, st := range sx.AsList(l[4]) {
					ss := sx.AsList(st)
					var calls strings.Builder
					for _, c := range sx.AsList(ss[1]) {
						if sx.AsInt(c) == 0 {
							calls.WriteByte('h')
						} else {
							calls.WriteByte('n')
						}
					}
					steps = append(steps, fmt.Sprintf("SetReader(%s) %s", sx.Quote(sx.AsString(ss[0])), calls.String()))
				}
				return fmt.Sprintf("one %s tokenizer, options %07b: %s  (h = HasNextToken, n = NextToken)", tokNames[sx.AsInt(l[1])], sx.AsInt(l[3]), strings.Join(steps, " ; "))
			}
			var ex []string
			for _, e := range sx.AsList(l[1]) {
				ex = append(ex, sx.Quote(sx.AsString(sx.AsList(e)[0])))
			}
			if sx.AsInt(l[0]) == 2 {
				return "one template object: " + strings.Join(ex, " ; ")
			}
			return "one parser/calculator: " + strings.Join(ex, " ; ")
		},
	})
}

var c05Pool = []string{"a <= b", "a <> b", "a >= b", "a != b", "a << b", "a >> b", "a < b", "a > b", "<", "<<=", "{{a}}", "{{{a}}}", "x{{#if a}}y{{/if}}", "{{", "}}", "}}}",
	"text only", "'unterminated", "\"unterminated", "/* open", "1.5e+3 -2 .5", "a,b\r\nc", "a\n\rb", "\"q\"\"q\"", "'it''s'", "# c", "a /*c*/ b", "😀", "{{a😀b}}", "", " ", "AND or", "日本", "a-b", "-", "1e"}

func genCalls(ctx *Ctx, approxTokens int) sx.List {
	var calls sx.List
	n := ctx.Rnd.Intn(approxTokens + 3)
	if ctx.Rnd.Intn(3) == 0 {
		n = approxTokens + 2 // run past the end
	}
	nexts := 0
	for nexts < n {
		if ctx.Rnd.Intn(3) == 0 {
			calls = append(calls, sx.I(0))
			if ctx.Rnd.Intn(3) == 0 {
				calls = append(calls, sx.I(0))
			}
		} else {
			calls = append(calls, sx.I(1))
			nexts++
		}
	}
	if ctx.Rnd.Intn(2) == 0 {
		calls = append(calls, sx.I(0)) // a trailing look-ahead that is then abandoned
	}
	return calls
}

func genC05(ctx *Ctx) {
	emitHistory := func(kind int, texts []string) {
		cfg := defaultCsvCfg
		if kind == 2 {
			cfg = csvCfgs[ctx.Rnd.Intn(2)]
		}
		bits := []int{0, 0, 2 | 4 | 8 | 64, 127, ctx.Rnd.Intn(128)}[ctx.Rnd.Intn(5)]
		var steps sx.List
		for _, t := range texts {
			steps = append(steps, sx.L(sx.S(t), genCalls(ctx, len(t)/2+1)))
		}
		distinct := false
		for _, t := range texts[1:] {
			if t != texts[0] {
				distinct = true
			}
		}
		ctx.Count("tokenizer-history:" + tokNames[kind])
		ctx.Input(sx.L(sx.I(0), sx.N(kind), cfg, sx.N(bits), steps), distinct)
	}
	// ordered pairs from the pool
	k := 0
	for _, a := range c05Pool {
		for _, b := range c05Pool {
			k++
			if !ctx.Thorough && k%9 != int(ctx.Rnd.Int63()%9) {
				continue
			}
			for kind := 0; kind < 4; kind++ {
				if !ctx.Thorough && ctx.Rnd.Intn(2) == 0 {
					continue
				}
				emitHistory(kind, []string{a, b, a})
			}
		}
	}
	for i := 0; i < ctx.N/2; i++ {
		n := 2 + ctx.Rnd.Intn(5)
		var texts []string
		for j := 0; j < n; j++ {
			texts = append(texts, c05Pool[ctx.Rnd.Intn(len(c05Pool))])
		}
		emitHistory(ctx.Rnd.Intn(4), texts)
	}
	// scale: long histories - 40 and 120 inputs on one tokenizer instance, 40 and 120 expressions on one parser / calculator,
	// 40 and 120 templates on one template object (every step still compared with a fresh instance)
	for _, n := range []int{40, 120} {
		for kind := 0; kind < 4; kind++ {
			var texts []string
			for j := 0; j < n; j++ {
				texts = append(texts, c05Pool[(j*7+kind+j/5)%len(c05Pool)])
			}
			emitHistory(kind, texts)
		}
		var steps, tsteps sx.List
		bad2 := []string{"a +", "f(", "(a", "a $ b", "", "1 + 2 )"}
		for j := 0; j < n; j++ {
			var text string
			switch {
			case j%6 == 5:
				text = bad2[(j/6)%len(bad2)]
			case j%4 == 3 && j > 0:
				text = sx.AsString(sx.AsList(steps[j-1])[0])
			default:
				t := genTree(ctx.Rnd, 1+ctx.Rnd.Intn(3))
				p := &printer{rnd: ctx.Rnd, parens: ctx.Rnd.Intn(3)}
				text = p.at(t, 0)
			}
			steps = append(steps, exprInput(text, sx.L(), nil))
			tpl := mPrint(ctx.Rnd, genMNodes(ctx.Rnd, 1+ctx.Rnd.Intn(2)))
			if j%5 == 4 {
				tpl = []string{"{{#a}}x", "{{/a}}", "{{a", "text only"}[(j/5)%4]
			}
			tsteps = append(tsteps, mInput(tpl, genVars(ctx.Rnd), sx.L()))
		}
		ctx.Count("scale-history")
		ctx.Input(sx.L(sx.I(1), steps), true)
		ctx.Input(sx.L(sx.I(2), tsteps), true)
	}
	// template histories
	for i := 0; i < ctx.N/4; i++ {
		n := 2 + ctx.Rnd.Intn(5)
		var steps sx.List
		for j := 0; j < n; j++ {
			var tpl string
			if ctx.Rnd.Intn(4) == 0 {
				tpl = []string{"{{#a}}x", "{{/a}}", "{{a", "{{{a}}", "", "}}", "text only"}[ctx.Rnd.Intn(7)]
			} else {
				tpl = mPrint(ctx.Rnd, genMNodes(ctx.Rnd, 1+ctx.Rnd.Intn(2)))
			}
			steps = append(steps, mInput(tpl, genVars(ctx.Rnd), sx.L()))
		}
		ctx.Count("template-history")
		ctx.Input(sx.L(sx.I(2), steps), true)
	}
	// calculator histories
	bad := []string{"a +", "1 2", "f(", "a[1", "(a", "a $ b", "", "NOT", "a IS", "'x", "1 + 2 )", "a * b c", "x IS NOT 5", "f(a, b", "a b"}
	for i := 0; i < ctx.N/4; i++ {
		n := 2 + ctx.Rnd.Intn(5)
		var steps sx.List
		prev := ""
		for j := 0; j < n; j++ {
			var text string
			if j > 0 && ctx.Rnd.Intn(3) == 0 {
				text = prev // the same text again, well-formed or not
				ctx.Count("calculator-history:repeated-input")
			} else if ctx.Rnd.Intn(4) == 0 {
				text = bad[ctx.Rnd.Intn(len(bad))]
			} else {
				t := genTree(ctx.Rnd, 1+ctx.Rnd.Intn(4))
				p := &printer{rnd: ctx.Rnd, parens: ctx.Rnd.Intn(3), noise: ctx.Rnd.Intn(2) == 0}
				text = p.at(t, 0)
			}
			prev = text
			steps = append(steps, exprInput(text, sx.L(), nil))
		}
		ctx.Count("calculator-history")
		ctx.Input(sx.L(sx.I(1), steps), true)
	}
}

func runC05Templates(steps sx.List) (sx.SX, string) {
	tpl := mustache.NewMustacheTemplate()
	var out sx.List
	fail := ""
	for i, st := range steps {
		if i%3 == 2 {
			tpl.Clear() // Clear between uses must leave a usable object
		}
		one := func(t *mustache.MustacheTemplate) sx.SX {
			l := sx.AsList(st)
			text := sx.AsString(l[0])
			vars := map[string]string{}
			for _, b := range sx.AsList(l[2]) {
				bb := sx.AsList(b)
				vars[sx.AsString(bb[0])] = sx.AsString(bb[1])
			}
			if err := t.SetTemplate(text); err != nil {
				c, ok := mErrCodes[codeOf(err)]
				if !ok {
					c = 99
				}
				return sx.L(sx.I(1), sx.I(c))
			}
			p := mparsers.NewMustacheParser()
			p.SetTemplate(text)
			var names sx.List
			for _, n := range p.VariableNames() {
				names = append(names, sx.S(n))
			}
			res, err := t.EvaluateWithVariables(vars)
			if err != nil {
				return sx.L(sx.I(1), sx.I(98))
			}
			return sx.L(sx.I(0), sx.S(res), names)
		}
		got := one(tpl)
		want := one(mustache.NewMustacheTemplate())
		if sx.Text(got) != sx.Text(want) && fail == "" {
			fail = fmt.Sprintf("template %d (%s): the reused object gave %s, a fresh one %s", i, sx.Quote(sx.AsString(sx.AsList(st)[0])), sx.Text(got), sx.Text(want))
		}
		out = append(out, got)
		// an empty token list (nil, then of length zero) given to the reused object: what a fresh object makes of it
		if fail == "" {
			for _, empty := range [][]*tokenizers.Token{nil, {}} {
				fresh := mustache.NewMustacheTemplate()
				e1, e2 := tpl.SetOriginalTokens(empty), fresh.SetOriginalTokens(empty)
				r1, x1 := tpl.Evaluate()
				r2, x2 := fresh.Evaluate()
				if (e1 == nil) != (e2 == nil) || (x1 == nil) != (x2 == nil) || r1 != r2 || tpl.Template() != fresh.Template() || len(tpl.ResultTokens()) != len(fresh.ResultTokens()) || len(tpl.InitialTokens()) != len(fresh.InitialTokens()) {
					fail = fmt.Sprintf("template %d: after %s, an empty token list (nil: %v) leaves the reused object rendering %s with %d result tokens, a fresh one %s with %d", i, sx.Quote(sx.AsString(sx.AsList(st)[0])), empty == nil, sx.Quote(r1), len(tpl.ResultTokens()), sx.Quote(r2), len(fresh.ResultTokens()))
					break
				}
			}
		}
	}
	return out, fail
}

func runCalls(t tokenizers.ITokenizer, text string, calls sx.List) sx.List {
	t.SetReader(sio.NewStringScanner(text))
	var obs sx.List
	for _, c := range calls {
		if sx.AsInt(c) == 0 {
			obs = append(obs, sx.L(sx.I(0), sx.B(t.HasNextToken())))
		} else {
			tok := t.NextToken()
			if tok == nil {
				obs = append(obs, sx.L(sx.I(1)))
			} else {
				obs = append(obs, sx.L(sx.I(1), sx.L(sx.N(tok.Type()), sx.S(tok.Value()), sx.N(tok.Line()), sx.N(tok.Column()))))
			}
		}
	}
	return obs
}

func runC05(in sx.SX) (sx.SX, string) {
	l := sx.AsList(in)
	fail := ""
	var out sx.List
	if sx.AsInt(l[0]) == 0 {
		kind, bits := int(sx.AsInt(l[1])), int(sx.AsInt(l[3]))
		t := newTokenizer(kind, l[2])
		setOptions(t, bits)
		for i, st := range sx.AsList(l[4]) {
			ss := sx.AsList(st)
			text, calls := sx.AsString(ss[0]), sx.AsList(ss[1])
			got := runCalls(t, text, calls)
			fresh := newTokenizer(kind, l[2])
			setOptions(fresh, bits)
			want := runCalls(fresh, text, calls)
			if sx.Text(got) != sx.Text(want) && fail == "" {
				fail = fmt.Sprintf("step %d (%s): the reused instance observed %s, a fresh instance %s", i, sx.Quote(text), sx.Text(got), sx.Text(want))
			}
			// the pull interface is a stream: whatever the interleaving, NextToken hands out the tokens of TokenizeBuffer one by
			// one (nothing after the last), and HasNextToken says whether one is left
			if fail == "" {
				f3 := newTokenizer(kind, l[2])
				setOptions(f3, bits)
				stream := f3.TokenizeBuffer(text)
				pos := 0
				for ci, c := range calls {
					o := sx.AsList(got[ci])
					if sx.AsInt(c) == 0 {
						if sx.AsBool(o[1]) != (pos < len(stream)) && fail == "" {
							fail = fmt.Sprintf("step %d (%s): call %d, HasNextToken answered %v with %d of %d tokens handed out", i, sx.Quote(text), ci, sx.AsBool(o[1]), pos, len(stream))
						}
						continue
					}
					if pos >= len(stream) {
						if len(o) > 1 && fail == "" {
							fail = fmt.Sprintf("step %d (%s): call %d, NextToken returned a token after all %d tokens were handed out", i, sx.Quote(text), ci, len(stream))
						}
						continue
					}
					w := stream[pos]
					pos++
					if fail == "" && (len(o) < 2 || sx.Text(o[1]) != sx.Text(sx.L(sx.N(w.Type()), sx.S(w.Value()), sx.N(w.Line()), sx.N(w.Column())))) {
						fail = fmt.Sprintf("step %d (%s): call %d, NextToken returned %s, token %d of TokenizeBuffer is (%d %s)", i, sx.Quote(text), ci, sx.Text(got[ci]), pos-1, w.Type(), sx.Quote(w.Value()))
					}
				}
			}
			// TokenizeBuffer on the reused instance (whatever the calls above left behind) against a fresh one
			if fail == "" {
				show := func(ts []*tokenizers.Token) string {
					var sb strings.Builder
					for _, k := range ts {
						fmt.Fprintf(&sb, "(%d %s)", k.Type(), sx.Quote(k.Value()))
					}
					return sb.String()
				}
				f2 := newTokenizer(kind, l[2])
				setOptions(f2, bits)
				if a, b := show(t.TokenizeBuffer(text)), show(f2.TokenizeBuffer(text)); a != b {
					fail = fmt.Sprintf("step %d: TokenizeBuffer(%s) on the reused instance gave %s, on a fresh instance %s", i, sx.Quote(text), a, b)
				}
				// one scanner object used twice: SetReader(s), a look-ahead, s.Reset(), TokenizeStream(s)
				sc := sio.NewStringScanner(text)
				t.SetReader(sc)
				t.HasNextToken()
				sc.Reset()
				if a, b := show(t.TokenizeStream(sc)), show(f2.TokenizeBuffer(text)); a != b && fail == "" {
					fail = fmt.Sprintf("step %d: SetReader(s), HasNextToken(), s.Reset(), TokenizeStream(s) on the reused instance gave %s, a fresh instance gives %s", i, a, b)
				}
			}
			out = append(out, got)
		}
		return out, fail
	}
	if sx.AsInt(l[0]) == 2 {
		return runC05Templates(sx.AsList(l[1]))
	}
	p := parsers.NewExpressionParser()
	calc := calculator.NewExpressionCalculator()
	for i, e := range sx.AsList(l[1]) {
		text := sx.AsString(sx.AsList(e)[0])
		var obs sx.SX
		if err := p.ParseString(text); err != nil {
			code, _ := errCode(err)
			obs = sx.L(sx.I(code))
		} else {
			obs = renderRPN(p)
		}
		fp := parsers.NewExpressionParser()
		var want sx.SX
		if err := fp.ParseString(text); err != nil {
			code, _ := errCode(err)
			want = sx.L(sx.I(code))
		} else {
			want = renderRPN(fp)
		}
		if sx.Text(obs) != sx.Text(want) && fail == "" {
			fail = fmt.Sprintf("expression %d (%s): the reused parser gave %s, a fresh parser %s", i, sx.Quote(text), sx.Text(obs), sx.Text(want))
		}
		// the same through ParseTokens followed by ParseString of the composed text
		if toks := fp.OriginalTokens(); len(toks) > 0 && fail == "" {
			p.ParseTokens(toks)
			composed := p.Expression()
			var o1, o2 sx.SX
			if err := p.ParseString(composed); err != nil {
				code, _ := errCode(err)
				o1 = sx.L(sx.I(code))
			} else {
				o1 = renderRPN(p)
			}
			f2 := parsers.NewExpressionParser()
			if err := f2.ParseString(composed); err != nil {
				code, _ := errCode(err)
				o2 = sx.L(sx.I(code))
			} else {
				o2 = renderRPN(f2)
			}
			if sx.Text(o1) != sx.Text(o2) {
				fail = fmt.Sprintf("expression %d: ParseTokens then ParseString(%s) on the reused parser gave %s, a fresh parser %s", i, sx.Quote(composed), sx.Text(o1), sx.Text(o2))
			}
		}
		// an empty token list (nil or of length zero) given to the reused parser: what a fresh parser makes of it
		if fail == "" {
			for _, empty := range [][]*tokenizers.Token{nil, {}} {
				f4 := parsers.NewExpressionParser()
				e1, e2 := p.ParseTokens(empty), f4.ParseTokens(empty)
				var o1, o2 sx.SX
				if e1 != nil {
					code, _ := errCode(e1)
					o1 = sx.L(sx.I(code))
				} else {
					o1 = renderRPN(p)
				}
				if e2 != nil {
					code, _ := errCode(e2)
					o2 = sx.L(sx.I(code))
				} else {
					o2 = renderRPN(f4)
				}
				if sx.Text(o1) != sx.Text(o2) || p.Expression() != f4.Expression() || len(p.VariableNames()) != len(f4.VariableNames()) || len(p.InitialTokens()) != len(f4.InitialTokens()) {
					fail = fmt.Sprintf("expression %d: after %s, ParseTokens of an empty token list (nil: %v) left the reused parser with expression %s, result %s, %d variables; a fresh parser with %s, %s, %d", i, sx.Quote(text), empty == nil, sx.Quote(p.Expression()), sx.Text(o1), len(p.VariableNames()), sx.Quote(f4.Expression()), sx.Text(o2), len(f4.VariableNames()))
					break
				}
				p.ParseString(text)
			}
		}
		out = append(out, obs)
		// the calculator under the same explicit variable values
		vars := variables.NewVariableCollection()
		for j, n := range []string{"a", "b", "c", "x1", "_y", "q id", "Z", "é1"} {
			vars.Add(variables.NewVariable(n, variants.VariantFromInteger(j+1)))
		}
		e1 := calc.SetExpression(text)
		fc := calculator.NewExpressionCalculator()
		e2 := fc.SetExpression(text)
		if (e1 != nil) != (e2 != nil) && fail == "" {
			fail = fmt.Sprintf("expression %d (%s): the reused calculator and a fresh one disagree on acceptance", i, sx.Quote(text))
		}
		if e1 == nil && e2 == nil {
			v1, ee1 := calc.EvaluateUsingVariables(vars)
			v2, ee2 := fc.EvaluateUsingVariables(vars)
			if ok, why := sameResult(v1, ee1, v2, ee2); !ok && fail == "" {
				fail = fmt.Sprintf("expression %d (%s): reused and fresh calculator differ: %s", i, sx.Quote(text), why)
			}
		}
	}
	return out, fail
}
