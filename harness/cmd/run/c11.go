package main

import (
	"fmt"
	"strings"

	"harness/sx"

	sio "github.com/pip-services3-gox/pip-services3-expressions-gox/io"
)

// C11 — string scanner.
// input  = (content (op ...)), op = (code arg): 0 read | 1 unread | 2 unread-many arg | 3 peek | 4 reset
// output = ((ret line col peek peekLine peekColumn) ...) after each operation
func init() {
	register(&Prop{
		ID:   "C11",
		Rule: "contents over {a,b,LF,CR,2-/3-/4-byte characters, U+2028, U+2029, U+0085, VT, FF} with random operation histories (read, unread, unread-many, peek, reset), long contents (2B+12 characters for B = 64, 256, 1024, thorough also 4096) with every line-break style placed across the multiples of B and the cursor moved back and forth over them, plus exhaustive contents<=4 over {x,LF,CR} x op sequences<=5 (thorough); non-trivial = contains a line break and at least one unread after a read; distinct by input hash",
		Gen:  genC11,
		Run:  runC11,
		Human: func(in sx.SX) string {
			l := sx.AsList(in)
			var ops []string
			for _, o := range sx.AsList(l[1]) {
				oo := sx.AsList(o)
				switch sx.AsInt(oo[0]) {
				case 0:
					ops = append(ops, "Read")
				case 1:
					ops = append(ops, "Unread")
				case 2:
					ops = append(ops, fmt.Sprintf("UnreadMany(%d)", sx.AsInt(oo[1])))
				case 3:
					ops = append(ops, "Peek")
				case 5:
					ops = append(ops, fmt.Sprintf("Read x%d", sx.AsInt(oo[1])))
				default:
					ops = append(ops, "Reset")
				}
			}
			return fmt.Sprintf("NewStringScanner(%s): %s", sx.Quote(sx.AsString(l[0])), strings.Join(ops, " "))
		},
	})
}

func c11op(code, arg int) sx.SX { return sx.L(sx.N(code), sx.N(arg)) }

func c11Nontrivial(content []rune, ops []sx.SX) bool {
	brk := false
	for _, r := range content {
		if r == '\n' || r == '\r' {
			brk = true
		}
	}
	seenRead, unreadAfter := false, false
	for _, o := range ops {
		switch sx.AsInt(sx.AsList(o)[0]) {
		case 0:
			seenRead = true
		case 1, 2:
			if seenRead {
				unreadAfter = true
			}
		}
	}
	return brk && unreadAfter
}

func genC11(ctx *Ctx) {
	alpha := []rune{'a', '\n', '\r', 'é', '日', '😀', 'b', '\n', '\r', 0x2028, 0x2029, 0x85, '\v', '\f', '\n', '\r'} // only LF and CR break lines: the other separators of Unicode are ordinary characters
	if ctx.Thorough {
		// exhaustive small scope: contents <= 4 over {x, LF, CR} x op sequences <= 5 over {read, unread, unread-many 2, peek, reset}
		small := []rune{'x', '\n', '\r'}
		var contents [][]rune
		var rec func(cur []rune, k int)
		rec = func(cur []rune, k int) {
			contents = append(contents, append([]rune{}, cur...))
			if k == 0 {
				return
			}
			for _, r := range small {
				rec(append(cur, r), k-1)
			}
		}
		rec(nil, 4)
		opk := []sx.SX{c11op(0, 0), c11op(1, 0), c11op(2, 2), c11op(3, 0), c11op(4, 0)}
		var seqs [][]sx.SX
		var rec2 func(cur []sx.SX, k int)
		rec2 = func(cur []sx.SX, k int) {
			if len(cur) > 0 {
				seqs = append(seqs, append([]sx.SX{}, cur...))
			}
			if k == 0 {
				return
			}
			for _, o := range opk {
				rec2(append(cur, o), k-1)
			}
		}
		rec2(nil, 5)
		for _, c := range contents {
			for _, s := range seqs {
				ctx.Count("exhaustive")
				ctx.Input(sx.L(sx.R(c), sx.List(s)), c11Nontrivial(c, s))
			}
		}
	}
	maxOps := 40
	if ctx.Thorough {
		maxOps = 400
	}
	for i := 0; i < ctx.N; i++ {
		ln := ctx.Rnd.Intn(10)
		rs := make([]rune, ln)
		for j := range rs {
			rs[j] = alpha[ctx.Rnd.Intn(len(alpha))]
		}
		nops := 1 + ctx.Rnd.Intn(maxOps)
		if ctx.Rnd.Intn(4) > 0 {
			nops = 1 + ctx.Rnd.Intn(30)
		}
		ops := make([]sx.SX, 0, nops)
		for k := 0; k < nops; k++ {
			switch r := ctx.Rnd.Intn(10); {
			case r < 5:
				ops = append(ops, c11op(0, 0))
				ctx.Count("op:read")
			case r < 7:
				ops = append(ops, c11op(1, 0))
				ctx.Count("op:unread")
			case r < 8:
				ops = append(ops, c11op(2, ctx.Rnd.Intn(4)))
				ctx.Count("op:unread-many")
			case r < 9:
				ops = append(ops, c11op(3, 0))
				ctx.Count("op:peek")
			default:
				ops = append(ops, c11op(4, 0))
				ctx.Count("op:reset")
			}
		}
		ctx.Count(fmt.Sprintf("content-len:%d", ln))
		ctx.Input(sx.L(sx.R(rs), sx.List(ops)), c11Nontrivial(rs, ops))
	}
	// long contents: line breaks of every style placed across the multiples of a block size B (whatever a scanner remembers
	// per block of input meets a break that straddles the block boundary), the cursor is moved back and forth over them
	blocks := []int{64, 256, 1024, 4096} // (the largest one is checked by the direct oracle only in the quick tier: the model needs minutes for it)
	for _, B := range blocks {
		for _, brk := range []string{"\n", "\r", "\r\n", "\n\r"} {
			for align := 0; align < 2; align++ {
				rs := make([]rune, 2*B+12)
				for j := range rs {
					rs[j] = 'a'
					if ctx.Rnd.Intn(97) == 0 {
						rs[j] = []rune{'\n', '\r', '日'}[ctx.Rnd.Intn(3)]
					}
				}
				for m := 1; m <= 2; m++ {
					at := m*B - align
					if len(brk) == 2 {
						at = m*B - 1 + align // the two-character break straddles the boundary (or starts right at it)
					}
					copy(rs[at:], []rune(brk))
				}
				var ops []sx.SX
				ops = append(ops, c11op(5, B+3))
				for x := 0; x < 4; x++ {
					k := 1 + ctx.Rnd.Intn(6)
					ops = append(ops, c11op(2, k), c11op(3, 0), c11op(5, k))
				}
				ops = append(ops, c11op(1, 0), c11op(1, 0), c11op(1, 0), c11op(5, 3), c11op(5, B-3))
				for x := 0; x < 4; x++ {
					k := 1 + ctx.Rnd.Intn(6)
					ops = append(ops, c11op(2, k), c11op(5, k))
				}
				ops = append(ops, c11op(4, 0), c11op(5, B+2), c11op(1, 0), c11op(1, 0), c11op(1, 0), c11op(5, 3), c11op(5, B+20), c11op(2, 3), c11op(0, 0))
				ctx.Count(fmt.Sprintf("long-content:block-%d", B))
				if B > 1024 && !ctx.Thorough {
					ctx.OracleOnly(sx.L(sx.R(rs), sx.List(ops)), fmt.Sprintf("long content, block %d", B))
					continue
				}
				ctx.Input(sx.L(sx.R(rs), sx.List(ops)), true)
			}
		}
	}
}

func runC11(in sx.SX) (sx.SX, string) {
	l := sx.AsList(in)
	content := sx.AsString(l[0])
	runes := []rune(content)
	sc := sio.NewStringScanner(content)
	var out sx.List
	fail := ""
	pos := 0 // number of slots consumed according to the cursor specification: 0..len+1
	for k, o := range sx.AsList(l[1]) {
		oo := sx.AsList(o)
		ret := int64(-2)
		peekBefore := sc.Peek()
		plBefore, pcBefore := sc.PeekLine(), sc.PeekColumn()
		switch sx.AsInt(oo[0]) {
		case 5:
			for n := int(sx.AsInt(oo[1])); n > 0; n-- {
				ret = int64(sc.Read())
				want := int64(-1)
				if pos < len(runes) {
					want = int64(runes[pos])
				}
				if ret != want && fail == "" {
					fail = fmt.Sprintf("op %d: a Read returned %d, the cursor specification says %d", k, ret, want)
				}
				if pos <= len(runes) {
					pos++
				}
			}
		case 0:
			ret = int64(sc.Read())
			want := int64(-1)
			if pos < len(runes) {
				want = int64(runes[pos])
			}
			if ret != want && fail == "" {
				fail = fmt.Sprintf("op %d: Read returned %d, the cursor specification says %d", k, ret, want)
			}
			if int64(peekBefore) != ret && fail == "" {
				fail = fmt.Sprintf("op %d: Peek before Read said %d, Read returned %d", k, peekBefore, ret)
			}
			if want >= 0 && (plBefore != sc.Line() || pcBefore != sc.Column()) && fail == "" {
				fail = fmt.Sprintf("op %d: peeked position (%d,%d) differs from the position after the read (%d,%d)", k, plBefore, pcBefore, sc.Line(), sc.Column())
			}
			if pos <= len(runes) {
				pos++
			}
		case 1:
			sc.Unread()
			if pos > 0 {
				pos--
			}
		case 2:
			m := int(sx.AsInt(oo[1]))
			sc.UnreadMany(m)
			pos -= m
			if pos < 0 {
				pos = 0
			}
		case 3:
			sc.Peek()
			sc.PeekLine()
			sc.PeekColumn()
		default:
			sc.Reset()
			pos = 0
		}
		// direct oracle: a fresh scanner forward-scanned to the same position reports the same line/column
		fresh := sio.NewStringScanner(content)
		for i := 0; i < pos; i++ {
			fresh.Read()
		}
		if (fresh.Line() != sc.Line() || fresh.Column() != sc.Column() || fresh.Peek() != sc.Peek()) && fail == "" {
			fail = fmt.Sprintf("op %d: at position %d the scanner reports line %d column %d peek %d, a fresh forward scan reports line %d column %d peek %d",
				k, pos, sc.Line(), sc.Column(), sc.Peek(), fresh.Line(), fresh.Column(), fresh.Peek())
		}
		out = append(out, sx.L(sx.I(ret), sx.N(sc.Line()), sx.N(sc.Column()), sx.I(int64(sc.Peek())), sx.N(sc.PeekLine()), sx.N(sc.PeekColumn())))
	}
	return out, fail
}
