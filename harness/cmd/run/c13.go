package main

import (
	"fmt"
	"strings"
	"sync"

	ctok "github.com/pip-services3-gox/pip-services3-expressions-gox/calculator/tokenizers"
	"github.com/pip-services3-gox/pip-services3-expressions-gox/tokenizers/generic"

	"harness/sx"

	"github.com/pip-services3-gox/pip-services3-expressions-gox/tokenizers"
)

// C13 — lexeme sequences tokenize back to themselves with the right classes (generic and expression tokenizer).
// The input carries, besides the tokenizer case (kind, bits=0, text, cfg), the expected (type, lexeme) list as a
// fifth element; the model ignores it (it tokenizes the text), the direct oracle compares it with the implementation.

type lexeme struct {
	text string
	typ  int
	cls  string
}

func isWordStart(r rune) bool {
	return r >= 'a' && r <= 'z' || r >= 'A' && r <= 'Z' || r == '_' || r >= 0xC0 && r <= 0xFF
}

func c13Lexemes(ctx *Ctx, kind int) []lexeme {
	r := ctx.Rnd
	pick := func(xs ...string) string { return xs[r.Intn(len(xs))] }
	var out []lexeme
	n := 1 + r.Intn(8)
	for i := 0; i < n; i++ {
		var lx lexeme
		switch c := r.Intn(12); {
		case c == 0:
			if kind == 1 {
				lx = lexeme{pick("abc", "x1", "_y", "Zed", "é", "ñandú", "a日本", "q_9", "Añ", "ÿ", "Louÿs", "Àÿ", "aĀ", "e٣", "E５", "e", "Ex", "e_1", "a٣", "LI\u212aE", "li\u212ae", "NUL\u0141", "aﬁ", "x\u212a"), tokenizers.Word, "identifier"}
			} else {
				lx = lexeme{pick("abc", "x1", "y_", "Zed", "é", "日本", "a-b", "ключ", "q_9", "ÿ", "Louÿs", "Àÿ", "Āa", "\ufffe", "٣x", "５m", "९", "e5", "E", "\ufeffab", "\ufeff", "\u200bx", "\u2028y"), tokenizers.Word, "identifier"}
			}
		case c == 1 && kind == 1:
			kw := pick("AND", "OR", "NOT", "XOR", "LIKE", "IS", "IN", "NULL", "TRUE", "FALSE")
			var sb strings.Builder
			for _, ch := range kw {
				if r.Intn(2) == 0 {
					sb.WriteRune(ch + 32)
				} else {
					sb.WriteRune(ch)
				}
			}
			lx = lexeme{sb.String(), tokenizers.Keyword, "keyword"}
			if r.Intn(5) == 0 { // letters whose upper case is an ASCII letter: dotless i, long s
				lx.text = pick("lıke", "LıKE", "iſ", "falſe", "Iſ", "lıKe", "Falſe") // (not at the start: in expressions an identifier starts with a Latin-1 letter)
			}
		case c == 2:
			lx = lexeme{pick("0", "7", "42", "007", "1234567890", "9223372036854775807", "9223372036854775808", "12345678901234567890", strings.Repeat("1234567890", 4), strings.Repeat("9", 70)), tokenizers.Integer, "integer"} // a digit run of any length is an integer lexeme
			if kind == 0 && r.Intn(3) == 0 {
				lx.text = "-" + lx.text // a sign is part of the number generically
			}
		case c == 3:
			lx = lexeme{pick("1.5", "0.25", ".5", "3.", "10.01"), tokenizers.Float, "decimal"}
			if kind == 0 && r.Intn(3) == 0 {
				lx.text = "-" + lx.text
			}
		case c == 4 && kind == 1:
			lx = lexeme{pick("1e5", "1.5E+3", "2e-2", ".5e1", "3.E0", "7E07"), tokenizers.Float, "scientific"}
		case c == 5:
			q := pick("'", "\"")
			body := pick("", "abc", "a b", "日本", "x\ny", "😀", "é")
			typ := tokenizers.Quoted
			if kind == 1 {
				if r.Intn(2) == 0 {
					body += q + q + "z" // doubled-quote escape
				}
				if q == "\"" {
					typ = tokenizers.Word // a double-quoted text is an identifier in expressions
				}
			}
			lx = lexeme{q + body + q, typ, "quoted"}
		case c == 6:
			if kind == 1 {
				lx = lexeme{pick("/* c */", "/**/", "/* a\nb */", "/* * / */", "/*日本*/", "/***/", "/* x **/", "/****/", "/** d ***/", "/*/*/"), tokenizers.Comment, "comment"}
			} else {
				lx = lexeme{pick("# c", "#", "# a /* b", "#日本"), tokenizers.Comment, "comment"}
			}
		case c == 7:
			lx = lexeme{pick(" ", "  ", "\t", " \n ", "\r\n", "\n"), tokenizers.Whitespace, "whitespace"}
		case c == 8:
			if kind == 1 {
				lx = lexeme{pick("<=", ">=", "<>", "!=", "<<", ">>"), tokenizers.Symbol, "symbol2"}
			} else {
				lx = lexeme{pick("<=", ">=", "<>"), tokenizers.Symbol, "symbol2"}
			}
		default:
			if kind == 1 {
				lx = lexeme{pick("+", "-", "*", "(", ")", "[", "]", ",", "=", "<", ">", "%", "^", "!", "@", "$", "/", "٣", "５", "日", "€", ".", ".", "\ufeff", "\u2028"), tokenizers.Symbol, "symbol1"}
			} else {
				lx = lexeme{pick("+", "*", "(", ")", "[", "]", ",", "=", "<", ">", "%", "^", "!", "@", "$", "/"), tokenizers.Symbol, "symbol1"}
			}
		}
		if lx.text == "" {
			i--
			continue
		}
		out = append(out, lx)
	}
	return out
}

// canFollow: written next to each other, a and b cannot merge (conservative: when in doubt a separator is inserted)
func canFollow(kind int, a, b lexeme) bool {
	ar, br := []rune(a.text), []rune(b.text)
	last, first := ar[len(ar)-1], br[0]
	wordish := func(r rune) bool {
		return r >= 'a' && r <= 'z' || r >= 'A' && r <= 'Z' || r >= '0' && r <= '9' || r == '_' || r >= 0xC0 || (kind == 0 && r == '-')
	}
	digitish := func(r rune) bool {
		return r >= '0' && r <= '9' || r == '.' || r == 'e' || r == 'E' || r == '+' || r == '-'
	}
	switch a.cls {
	case "identifier", "keyword":
		return !wordish(first)
	case "integer", "decimal", "scientific":
		isDigit := func(r rune) bool { return r >= '0' && r <= '9' }
		if kind == 0 { // generic: only ASCII digits and the dot continue a number (a dot after a decimal does not)
			return !isDigit(first) && !(first == '.' && a.cls == "integer") && first != '.'
		}
		if first == 'e' || first == 'E' { // an exponent needs a digit, or a sign and a digit
			if a.cls == "scientific" {
				return true
			}
			if len(br) > 1 && (isDigit(br[1]) || ((br[1] == '+' || br[1] == '-') && len(br) > 2 && isDigit(br[2]))) {
				return false
			}
			return len(br) > 1 || false // a lone e at the very end of b could still meet digits of the NEXT lexeme: be conservative
		}
		return !digitish(first)
	case "quoted":
		return first != ar[0] // a following quote of the same kind would read as a doubled quote
	case "comment":
		if kind == 0 { // a # comment runs to the end of the line
			return first == '\n' || first == '\r'
		}
		return true
	case "whitespace":
		return b.cls != "whitespace"
	case "symbol1", "symbol2":
		if b.cls == "symbol1" || b.cls == "symbol2" {
			return false
		}
		if last == '/' && (first == '*' || first == '/') {
			return false
		}
		if last == '.' { // a dot starts a number only in front of an ASCII digit
			return !(first >= '0' && first <= '9')
		}
		if last == '-' && digitish(first) {
			return false
		}
		if kind == 0 && last == '-' {
			return false
		}
		return true
	}
	return false
}

// c13Boundary: lexemes whose neighbours matter (dots, exponent-like identifiers, signs, slashes, quotes), written
// next to each other in every order wherever the grammar says they cannot merge
func c13Boundary(kind int) []lexeme {
	w, sy, in, fl, q, cm := tokenizers.Word, tokenizers.Symbol, tokenizers.Integer, tokenizers.Float, tokenizers.Quoted, tokenizers.Comment
	out := []lexeme{{"e1", w, "identifier"}, {"E2x", w, "identifier"}, {"e", w, "identifier"}, {"x", w, "identifier"}, {"rec", w, "identifier"}, {"é", w, "identifier"},
		{"1", in, "integer"}, {"12", in, "integer"}, {"12345678901234567890123", in, "integer"}, {"1.5", fl, "decimal"}, {"3.", fl, "decimal"}, {".5", fl, "decimal"},
		{"+", sy, "symbol1"}, {"*", sy, "symbol1"}, {"(", sy, "symbol1"}, {")", sy, "symbol1"}, {"<=", sy, "symbol2"}, {"<", sy, "symbol1"}, {"=", sy, "symbol1"}, {">", sy, "symbol1"},
		{"'s'", q, "quoted"}, {" ", tokenizers.Whitespace, "whitespace"}}
	if kind == 1 {
		out = append(out, lexeme{".", sy, "symbol1"}, lexeme{"-", sy, "symbol1"}, lexeme{"/", sy, "symbol1"}, lexeme{"1e5", fl, "scientific"}, lexeme{"2E-3", fl, "scientific"},
			lexeme{"/* c */", cm, "comment"}, lexeme{"not", tokenizers.Keyword, "keyword"}, lexeme{"\"q\"", w, "quoted"}, lexeme{"!=", sy, "symbol2"})
	} else {
		out = append(out, lexeme{"-1", in, "integer"}, lexeme{"-.5", fl, "decimal"}, lexeme{"# c", cm, "comment"}, lexeme{"<>", sy, "symbol2"}, lexeme{"a-b", w, "identifier"})
	}
	return out
}

func genC13(ctx *Ctx) {
	for kind := 0; kind < 2; kind++ {
		pool := c13Boundary(kind)
		for _, a := range pool {
			for _, b := range pool {
				for _, c := range []lexeme{pool[0], pool[3], pool[6]} {
					if !canFollow(kind, a, b) || !canFollow(kind, b, c) {
						continue
					}
					want := sx.L(sx.L(sx.N(a.typ), sx.S(a.text)), sx.L(sx.N(b.typ), sx.S(b.text)), sx.L(sx.N(c.typ), sx.S(c.text)))
					ctx.Count("boundary-triple")
					ctx.Input(sx.L(sx.N(kind), sx.I(0), sx.S(a.text+b.text+c.text), defaultCsvCfg, want), true)
				}
			}
		}
	}
	for i := 0; i < ctx.N*3+8; i++ {
		kind := ctx.Rnd.Intn(2)
		ls := c13Lexemes(ctx, kind)
		scale := i >= ctx.N*3 // the last eight: sequences of hundreds of lexemes, checked by the direct oracle only
		if scale {
			for len(ls) < 150*(1+i%4) {
				ls = append(ls, c13Lexemes(ctx, kind)...)
			}
		}
		var text strings.Builder
		var want sx.List
		var prev *lexeme
		classes := map[string]bool{}
		for j := range ls {
			lx := ls[j]
			if prev != nil && (!canFollow(kind, *prev, lx) || ctx.Rnd.Intn(4) == 0) {
				sep := lexeme{" ", tokenizers.Whitespace, "whitespace"}
				if prev.cls == "whitespace" || lx.cls == "whitespace" {
					// neighbours cannot be separated by more whitespace without merging: use a neutral symbol
					sep = lexeme{",", tokenizers.Symbol, "symbol1"}
					if !canFollow(kind, *prev, sep) || !canFollow(kind, sep, lx) {
						continue // drop this lexeme
					}
				} else if prev.cls == "comment" && kind == 0 {
					sep = lexeme{"\n", tokenizers.Whitespace, "whitespace"}
				}
				text.WriteString(sep.text)
				want = append(want, sx.L(sx.N(sep.typ), sx.S(sep.text)))
				s := sep
				prev = &s
				if !canFollow(kind, *prev, lx) {
					continue
				}
			}
			text.WriteString(lx.text)
			want = append(want, sx.L(sx.N(lx.typ), sx.S(lx.text)))
			classes[lx.cls] = true
			ctx.Count("class:" + lx.cls)
			prev = &ls[j]
		}
		in := sx.L(sx.N(kind), sx.I(0), sx.S(text.String()), defaultCsvCfg, want)
		if scale {
			ctx.OracleOnly(in, fmt.Sprintf("scale: a sequence of %d lexemes", len(want)))
			continue
		}
		ctx.Input(in, len(classes) >= 3)
	}
}

var c13Once sync.Once
var c13Reconfigured string

// probeReconfigured: "identifiers may start with any configured letter": a tokenizer whose table is configured again
// (a later registration over a range above U+00FF) hands those characters to the newly configured state
func probeReconfigured() string {
	show := func(ts []*tokenizers.Token) string {
		var sb strings.Builder
		for _, t := range ts {
			fmt.Fprintf(&sb, "(%d %s)", t.Type(), t.Value())
		}
		return sb.String()
	}
	e := ctok.NewExpressionTokenizer()
	e.SetCharacterState(0x0400, 0x04ff, e.WordState())
	if got, want := show(e.TokenizeBuffer("ключ+1")), fmt.Sprintf("(%d ключ)(%d +)(%d 1)(%d )", tokenizers.Word, tokenizers.Symbol, tokenizers.Integer, tokenizers.Eof); got != want {
		return "an expression tokenizer with U+0400..U+04FF configured as letters tokenizes \"ключ+1\" as " + got
	}
	g := generic.NewGenericTokenizer()
	g.SetCharacterState(0x2200, 0x22ff, g.SymbolState())
	if got, want := show(g.TokenizeBuffer("∀x")), fmt.Sprintf("(%d ∀)(%d x)(%d )", tokenizers.Symbol, tokenizers.Word, tokenizers.Eof); got != want {
		return "a generic tokenizer with U+2200..U+22FF configured as symbols tokenizes \"∀x\" as " + got
	}
	g2 := generic.NewGenericTokenizer()
	g2.SetCharacterState(0x2200, 0x22ff, g2.SymbolState())
	g2.SetCharacterState(0x2200, 0x2200, g2.WordState())
	if got, want := show(g2.TokenizeBuffer("∀x ∁")), fmt.Sprintf("(%d ∀x)(%d  )(%d ∁)(%d )", tokenizers.Word, tokenizers.Whitespace, tokenizers.Symbol, tokenizers.Eof); got != want {
		return "a generic tokenizer configured twice over U+2200 tokenizes \"∀x ∁\" as " + got
	}
	// the class of a character does not depend on which characters were classified before it: on tokenizers with
	// overlapping non-Latin ranges, every ordered pair and triple of single characters (separated by blanks) comes back as
	// what each character gives alone on a new tokenizer; and a used tokenizer answers like a new one
	configs := []struct {
		name string
		mk   func() tokenizers.ITokenizer
	}{
		{"expression tokenizer with Greek configured as letters", func() tokenizers.ITokenizer {
			t := ctok.NewExpressionTokenizer()
			t.SetCharacterState(0x0370, 0x03ff, t.WordState())
			t.WordState().SetWordChars(0x0370, 0x03ff, true)
			return t
		}},
		{"generic tokenizer with the arrows block configured as symbols and Cyrillic as letters", func() tokenizers.ITokenizer {
			t := generic.NewGenericTokenizer()
			t.SetCharacterState(0x2190, 0x21ff, t.SymbolState())
			t.SetCharacterState(0x0400, 0x04ff, t.WordState())
			return t
		}},
		{"generic tokenizer with U+2200..U+22FF as symbols and U+2200 as a letter", func() tokenizers.ITokenizer {
			t := generic.NewGenericTokenizer()
			t.SetCharacterState(0x2200, 0x22ff, t.SymbolState())
			t.SetCharacterState(0x2200, 0x2200, t.WordState())
			return t
		}},
		{"generic tokenizer with Cyrillic as letters and U+0430..U+044F as symbols", func() tokenizers.ITokenizer {
			t := generic.NewGenericTokenizer()
			t.SetCharacterState(0x0400, 0x04ff, t.WordState())
			t.SetCharacterState(0x0430, 0x044f, t.SymbolState())
			return t
		}},
		{"expression tokenizer with U+2200..U+22FF as whitespace inside a symbol range", func() tokenizers.ITokenizer {
			t := ctok.NewExpressionTokenizer()
			t.SetCharacterState(0x2100, 0x23ff, t.SymbolState())
			t.SetCharacterState(0x2200, 0x22ff, t.WhitespaceState())
			t.WhitespaceState().SetWhitespaceChars(0x2200, 0x22ff, true)
			return t
		}},
	}
	alpha := []rune{'α', 'β', '≤', '→', 'ф', 'Ж', '日', '∀', '∁', 'é', 'x', '℃'}
	strip := func(ts []*tokenizers.Token) string { // without whitespace tokens (a configured whitespace character merges with the blanks) and the end marker
		var sb strings.Builder
		for _, t := range ts {
			if t.Type() != tokenizers.Eof && t.Type() != tokenizers.Whitespace {
				fmt.Fprintf(&sb, "(%d %s)", t.Type(), t.Value())
			}
		}
		return sb.String()
	}
	for _, cf := range configs {
		alone := map[rune]string{}
		for _, c := range alpha {
			alone[c] = strip(cf.mk().TokenizeBuffer(string(c)))
		}
		for _, a := range alpha {
			for _, b := range alpha {
				for _, c := range append([]rune{0}, alpha...) {
					text, want := string(a)+" "+string(b), alone[a]+alone[b]
					if c != 0 {
						text, want = text+" "+string(c), want+alone[c]
					}
					if got := strip(cf.mk().TokenizeBuffer(text)); got != want {
						return fmt.Sprintf("%s: %q comes back as %s, the characters alone give %s", cf.name, text, got, want)
					}
				}
			}
		}
		used := cf.mk()
		for _, a := range alpha {
			for _, b := range alpha {
				for _, text := range []string{string(a) + string(b), string(a) + " " + string(b) + string(a), string(b)} {
					if got, want := show(used.TokenizeBuffer(text)), show(cf.mk().TokenizeBuffer(text)); got != want {
						return fmt.Sprintf("%s, used before: %q comes back as %s, a new tokenizer gives %s", cf.name, text, got, want)
					}
				}
			}
		}
	}
	// symbols registered by the caller: three-character symbols whose two-character prefix is not a symbol of its own; texts
	// that end inside such a symbol, or continue differently, come back as their single characters - nothing is lost
	type adder interface{ Add(string, int) }
	for _, mk := range []func() tokenizers.ITokenizer{
		func() tokenizers.ITokenizer { return generic.NewGenericTokenizer() },
		func() tokenizers.ITokenizer { return ctok.NewExpressionTokenizer() },
	} {
		for _, sym := range []string{"=:=", "===", "<->", "|->>", "->", "--", "-=", "-->", "+-", "/=", ".."} {
			for _, text := range []string{"a " + sym, "a " + sym[:2], sym[:2], "a" + sym[:2] + " ", sym[:len(sym)-1], sym + sym[:2], "(" + sym[:2] + ")", sym[:1], "x " + sym[:2] + "y"} {
				t := mk()
				var st any
				switch tt := t.(type) {
				case *generic.GenericTokenizer:
					st = tt.SymbolState()
				case *ctok.ExpressionTokenizer:
					st = tt.SymbolState()
				}
				a, ok := st.(adder)
				if !ok {
					continue
				}
				a.Add(sym, tokenizers.Symbol)
				var sb strings.Builder
				toks := t.TokenizeBuffer(text)
				for _, k := range toks {
					sb.WriteString(k.Value())
				}
				if sb.String() != text {
					return fmt.Sprintf("with the symbol %q registered, %q comes back as %s (the token values do not spell the text)", sym, text, show(toks))
				}
				// the registered symbol itself, between two identifiers, is one token
				whole := false
				for _, k := range mkWithSym(mk, sym).TokenizeBuffer("a " + sym + " b") {
					whole = whole || (k.Value() == sym && k.Type() == tokenizers.Symbol)
				}
				if !whole {
					return fmt.Sprintf("with the symbol %q registered, \"a %s b\" does not contain it as one token", sym, sym)
				}
				for _, k := range toks {
					if k.Type() == tokenizers.Symbol && len([]rune(k.Value())) > 1 && k.Value() != sym && !strings.Contains("<= >= <> != << >> == ", k.Value()+" ") {
						return fmt.Sprintf("with the symbol %q registered, %q contains the symbol token %q, which was never registered", sym, text, k.Value())
					}
				}
			}
		}
	}
	return ""
}

func mkWithSym(mk func() tokenizers.ITokenizer, sym string) tokenizers.ITokenizer {
	t := mk()
	var st any
	switch tt := t.(type) {
	case *generic.GenericTokenizer:
		st = tt.SymbolState()
	case *ctok.ExpressionTokenizer:
		st = tt.SymbolState()
	}
	if a, ok := st.(interface{ Add(string, int) }); ok {
		a.Add(sym, tokenizers.Symbol)
	}
	return t
}

func runC13(in sx.SX) (sx.SX, string) {
	l := sx.AsList(in)
	obs, fail := runTok("none")(in)
	c13Once.Do(func() { c13Reconfigured = probeReconfigured() })
	if fail == "" {
		fail = c13Reconfigured
	}
	got := sx.AsList(obs)
	want := sx.AsList(l[4])
	if len(got) != len(want)+1 {
		fail = fmt.Sprintf("%d lexemes were written, %d tokens came back", len(want), len(got)-1)
	}
	for i := 0; fail == "" && i < len(want); i++ {
		g, w := sx.AsList(got[i]), sx.AsList(want[i])
		if sx.AsInt(g[0]) != sx.AsInt(w[0]) || sx.AsString(g[1]) != sx.AsString(w[1]) {
			fail = fmt.Sprintf("lexeme %d %s (class %d) came back as %s (class %d)", i, sx.Quote(sx.AsString(w[1])), sx.AsInt(w[0]), sx.Quote(sx.AsString(g[1])), sx.AsInt(g[0]))
		}
	}
	return obs, fail
}

func init() {
	register(&Prop{ID: "C13", Gen: genC13, Run: runC13,
		Human: func(in sx.SX) string {
			l := sx.AsList(in)
			return fmt.Sprintf("%s tokenizer, lexeme sequence %s", tokNames[sx.AsInt(l[0])], sx.Quote(sx.AsString(l[2])))
		},
		Rule: "sequences of 1..8 well-formed lexemes of every class of the generic and the expression tokenizer (identifiers starting with Latin, Latin-1 and non-Latin letters, every keyword in random letter case, integers, decimals, scientific numbers, quoted strings with doubled quotes / newlines / non-ASCII, comments, whitespace runs, every registered multi-character symbol and single symbols), neighbours written adjacently when they cannot merge and separated otherwise; expected = the written lexemes with their classes; non-trivial = at least three different classes; distinct by input hash"})
}
