package main

// Shared machinery for the expression properties (C01, C02, C18, C03): syntax trees of the expression grammar,
// printers (minimal / random / full parenthesisation, spacing, comments, keyword case), the tokenizer view of a
// text, and an independent list-of-successes recogniser of the grammar (DESIGN.md 5.2) used as direct oracle.

import (
	"fmt"
	"math"
	"math/rand"
	"strings"

	"harness/sx"

	"github.com/pip-services3-gox/pip-services3-commons-gox/convert"
	"github.com/pip-services3-gox/pip-services3-expressions-gox/calculator/parsers"
	ctok "github.com/pip-services3-gox/pip-services3-expressions-gox/calculator/tokenizers"
	"github.com/pip-services3-gox/pip-services3-expressions-gox/tokenizers"
	"github.com/pip-services3-gox/pip-services3-expressions-gox/variants"
)

// ---------- trees ----------

type Tree struct {
	Kind string // const var un bin call
	Op   string // operator name for un/bin: NOT NEG ISNULL ISNOTNULL / AND OR XOR = <> > < >= <= + - LIKE NOTLIKE NOTIN * / % ^ IN << >> ELEM
	Text string // source text of a constant, name of a variable or function
	Args []*Tree
}

var binLevel = map[string]int{"AND": 0, "OR": 0, "XOR": 0, "=": 2, "<>": 2, ">": 2, "<": 2, ">=": 2, "<=": 2,
	"+": 3, "-": 3, "LIKE": 3, "NOTLIKE": 3, "NOTIN": 3, "*": 4, "/": 4, "%": 4, "^": 5, "IN": 5, "<<": 5, ">>": 5}

var binSpell = map[string][]string{"AND": {"AND"}, "OR": {"OR"}, "XOR": {"XOR"}, "=": {"="}, "<>": {"<>", "!="}, ">": {">"}, "<": {"<"},
	">=": {">="}, "<=": {"<="}, "+": {"+"}, "-": {"-"}, "LIKE": {"LIKE"}, "NOTLIKE": {"NOT LIKE"}, "NOTIN": {"NOT IN"},
	"*": {"*"}, "/": {"/"}, "%": {"%"}, "^": {"^"}, "IN": {"IN"}, "<<": {"<<"}, ">>": {">>"}}

// level of a tree as a non-terminal of the grammar: 0..5 = E0..E5, 6 = E6 (indexing), 7 = S (signed), 8 = P (primary)
func (t *Tree) level() int {
	switch t.Kind {
	case "const", "var", "call":
		return 8
	case "un":
		switch t.Op {
		case "NOT":
			return 1
		case "NEG":
			return 7
		default: // ISNULL, ISNOTNULL
			return 3
		}
	case "bin":
		if t.Op == "ELEM" {
			return 6
		}
		return binLevel[t.Op]
	}
	panic("bad tree")
}

type printer struct {
	rnd     *rand.Rand
	parens  int  // 0 minimal, 1 random extra, 2 full
	noise   bool // random spacing, comments, keyword case
	compact bool
}

func (p *printer) kw(s string) string {
	if !p.noise {
		return s
	}
	var sb strings.Builder
	for _, c := range s {
		if c >= 'A' && c <= 'Z' && p.rnd.Intn(2) == 0 {
			sb.WriteRune(c + 32)
		} else {
			sb.WriteRune(c)
		}
	}
	return sb.String()
}

func (p *printer) sep() string {
	if !p.noise {
		return " "
	}
	switch p.rnd.Intn(10) {
	case 0:
		return "  "
	case 1:
		return " /* c */ "
	case 2:
		return "\t"
	case 3:
		return " \n "
	case 4:
		return " /**/ "
	case 5:
		return "/**/" // a comment with nothing around it (directly after an operator such as / or *, directly before one)
	case 6:
		return "/* c */"
	}
	return " "
}

// at prints t as a non-terminal of the given level, wrapping in parentheses when t binds looser.
func (p *printer) at(t *Tree, level int) string {
	s := p.natural(t)
	if p.noise && t.level() == 8 && level <= 7 && t.Kind != "const" && p.rnd.Intn(12) == 0 {
		s = "+" + p.pad() + s // a unary plus in front of a primary adds no node to the tree
	}
	wrap := t.level() < level
	if !wrap && p.parens == 2 && t.level() < 8 {
		wrap = true
	}
	if !wrap && p.parens == 1 && p.rnd.Intn(4) == 0 {
		wrap = true
	}
	if wrap {
		s = "(" + p.pad() + s + p.pad() + ")"
		if p.parens == 1 && p.rnd.Intn(6) == 0 {
			s = "(" + s + ")"
		}
	}
	return s
}

func (p *printer) pad() string {
	if p.noise && p.rnd.Intn(3) == 0 {
		return " "
	}
	return ""
}

func (p *printer) natural(t *Tree) string {
	switch t.Kind {
	case "const":
		if t.Text == "TRUE" || t.Text == "FALSE" {
			return p.kw(t.Text)
		}
		return t.Text
	case "var":
		return t.Text
	case "call":
		var as []string
		for _, a := range t.Args {
			as = append(as, p.at(a, 0))
		}
		s := t.Text + p.pad() + "(" + strings.Join(as, p.pad()+","+p.pad())
		if len(as) > 0 && p.noise && p.rnd.Intn(8) == 0 {
			s += " ," // trailing comma is part of the language (DESIGN.md 4.3)
		}
		return s + p.pad() + ")"
	case "un":
		switch t.Op {
		case "NOT":
			return p.kw("NOT") + p.sep() + p.at(t.Args[0], 2)
		case "NEG":
			return "-" + p.pad() + p.at(t.Args[0], 8)
		case "ISNULL":
			return p.at(t.Args[0], 3) + p.sep() + p.kw("IS") + p.sep() + p.kw("NULL")
		default:
			return p.at(t.Args[0], 3) + p.sep() + p.kw("IS") + p.sep() + p.kw("NOT") + p.sep() + p.kw("NULL")
		}
	case "bin":
		if t.Op == "ELEM" {
			return p.at(t.Args[0], 7) + p.pad() + "[" + p.pad() + p.at(t.Args[1], 0) + p.pad() + "]"
		}
		l := binLevel[t.Op]
		sp := binSpell[t.Op][p.rnd.Intn(len(binSpell[t.Op]))]
		words := strings.Split(sp, " ")
		for i := range words {
			words[i] = p.kw(words[i])
		}
		left := p.at(t.Args[0], l)
		rl := l + 1
		if l == 5 { // right operand of level 5 is E6
			rl = 6
		}
		right := p.at(t.Args[1], rl)
		// a '+'-decorated primary: the unary plus adds no node
		return left + p.sep() + strings.Join(words, p.sep()) + p.sep() + right
	}
	panic("bad tree")
}

var exprConsts = []string{"0", "1", "2", "7", "42", "1.5", "2.0", "0.25", "'abc'", "''", "'it''s'", "'日本'", "TRUE", "FALSE", "3", "10"}
var exprVars = []string{"a", "b", "c", "x1", "_y", "\"q id\"", "Z", "é1", "nv1", "\"NULL\"", "\"and\"", "\"True\"", "\"in\""}
var exprFuncs = []string{"f", "g", "Max", "Min", "Sum", "If", "Abs", "nfoo"}

// genChain builds a left- or right-nested chain of operators (associativity and precedence probes).
func genChain(rnd *rand.Rand) *Tree {
	ops := []string{"AND", "OR", "XOR", "=", "<>", ">", "<", ">=", "<=", "+", "-", "*", "/", "%", "^", "IN", "<<", ">>", "NOTIN"}
	leaf := func() *Tree {
		if rnd.Intn(3) == 0 {
			return &Tree{Kind: "const", Text: []string{"2", "3", "7", "1.5"}[rnd.Intn(4)]}
		}
		return &Tree{Kind: "var", Text: []string{"a", "b", "c", "x1"}[rnd.Intn(4)]}
	}
	t := leaf()
	n := 2 + rnd.Intn(3)
	for i := 0; i < n; i++ {
		op := ops[rnd.Intn(len(ops))]
		if rnd.Intn(3) == 0 {
			t = &Tree{Kind: "bin", Op: op, Args: []*Tree{leaf(), t}} // right-nested: needs parentheses
		} else {
			t = &Tree{Kind: "bin", Op: op, Args: []*Tree{t, leaf()}}
		}
	}
	return t
}

func genTree(rnd *rand.Rand, depth int) *Tree {
	if depth > 1 && rnd.Intn(6) == 0 {
		return genChain(rnd)
	}
	if depth <= 0 || rnd.Intn(5) == 0 {
		if rnd.Intn(2) == 0 {
			return &Tree{Kind: "const", Text: exprConsts[rnd.Intn(len(exprConsts))]}
		}
		return &Tree{Kind: "var", Text: exprVars[rnd.Intn(len(exprVars))]}
	}
	switch r := rnd.Intn(20); {
	case r < 11:
		ops := []string{"AND", "OR", "XOR", "=", "<>", ">", "<", ">=", "<=", "+", "-", "*", "/", "%", "^", "IN", "<<", ">>", "NOTIN", "+", "-", "*"}
		if rnd.Intn(40) == 0 {
			ops = []string{"LIKE", "NOTLIKE"}
		}
		return &Tree{Kind: "bin", Op: ops[rnd.Intn(len(ops))], Args: []*Tree{genTree(rnd, depth-1), genTree(rnd, depth-1)}}
	case r < 13:
		return &Tree{Kind: "bin", Op: "ELEM", Args: []*Tree{genTree(rnd, depth-1), genTree(rnd, depth-1)}}
	case r < 17:
		ops := []string{"NOT", "NEG", "ISNULL", "ISNOTNULL"}
		return &Tree{Kind: "un", Op: ops[rnd.Intn(len(ops))], Args: []*Tree{genTree(rnd, depth-1)}}
	default:
		n := rnd.Intn(4)
		t := &Tree{Kind: "call", Text: exprFuncs[rnd.Intn(len(exprFuncs))]}
		for i := 0; i < n; i++ {
			t.Args = append(t.Args, genTree(rnd, depth-1))
		}
		return t
	}
}

func treeSX(t *Tree) sx.SX {
	if t == nil {
		return sx.L()
	}
	var args sx.List
	for _, a := range t.Args {
		args = append(args, treeSX(a))
	}
	return sx.L(sx.S(t.Kind), sx.S(t.Op), sx.S(t.Text), args)
}

func treeFromSX(x sx.SX) *Tree {
	l := sx.AsList(x)
	if len(l) == 0 {
		return nil
	}
	t := &Tree{Kind: sx.AsString(l[0]), Op: sx.AsString(l[1]), Text: sx.AsString(l[2])}
	for _, a := range sx.AsList(l[3]) {
		t.Args = append(t.Args, treeFromSX(a))
	}
	return t
}

// ---------- tokenizer view of a text ----------

type srcTok struct {
	Type  int
	Value string
}

// tokenizeLikeParser runs an independent ExpressionTokenizer with the options the parser sets.
func tokenizeLikeParser(text string) []srcTok {
	text = strings.Trim(text, " \t\r\n")
	if text == "" {
		return nil
	}
	t := ctok.NewExpressionTokenizer()
	t.SetSkipWhitespaces(true)
	t.SetSkipComments(true)
	t.SetSkipEof(true)
	t.SetDecodeStrings(true)
	var out []srcTok
	for _, k := range t.TokenizeBuffer(text) {
		out = append(out, srcTok{k.Type(), k.Value()})
	}
	return out
}

// tokSX encodes a tokenizer token with the host oracles the model needs: upper-cased text and number value.
func tokSX(t srcTok) sx.SX {
	var oracle sx.SX = sx.L()
	switch t.Type {
	case tokenizers.Integer:
		oracle = sx.I(int64(convert.IntegerConverter.ToInteger(t.Value)))
	case tokenizers.Float:
		oracle = sx.U(uint64(math.Float32bits(convert.FloatConverter.ToFloat(t.Value))))
	}
	return sx.L(sx.N(t.Type), sx.S(t.Value), sx.S(strings.ToUpper(t.Value)), oracle)
}

func exprInput(text string, env sx.SX, tree *Tree) sx.SX {
	var toks sx.List
	for _, t := range tokenizeLikeParser(text) {
		toks = append(toks, tokSX(t))
	}
	return sx.L(sx.S(text), toks, env, treeSX(tree))
}

// leafSX renders a variant as a leaf value (0 type payload).
func variantPayload(v *variants.Variant) (int, sx.SX) {
	switch v.Type() {
	case variants.Integer:
		return int(variants.Integer), sx.I(int64(v.AsInteger()))
	case variants.Long:
		return int(variants.Long), sx.I(v.AsLong())
	case variants.Float:
		return int(variants.Float), sx.U(uint64(math.Float32bits(v.AsFloat())))
	case variants.Double:
		return int(variants.Double), sx.U(math.Float64bits(v.AsDouble()))
	case variants.String:
		return int(variants.String), sx.S(v.AsString())
	case variants.Boolean:
		return int(variants.Boolean), sx.B(v.AsBoolean())
	case variants.Null:
		return int(variants.Null), sx.L()
	case variants.TimeSpan:
		return int(variants.TimeSpan), sx.I(int64(v.AsTimeSpan()))
	case variants.DateTime:
		return int(variants.DateTime), sx.I(v.AsDateTime().UnixNano())
	case variants.Array:
		var l sx.List
		for _, e := range v.AsArray() {
			t, p := variantPayload(e)
			l = append(l, sx.L(sx.N(t), p))
		}
		return int(variants.Array), l
	}
	return int(v.Type()), sx.L()
}

// ---------- syntax error codes ----------

var syntaxCodes = map[string]int64{"UNKNOWN_SYMBOL": 1, "UNEXPECTED_END": 2, "ERROR_AT": 3, "ERROR_NEAR": 4,
	"MISSED_CLOSE_PARENTHESIS": 5, "MISSED_CLOSE_SQUARE_BRACKET": 6, "INTERNAL": 7,
	"VAR_NOT_FOUND": 20, "FUNC_NOT_FOUND": 21}

func errCode(err error) (int64, string) {
	type coded interface{ Error() string }
	code := ""
	if ae, ok := err.(interface{ GetCode() string }); ok {
		code = ae.GetCode()
	} else {
		code = codeOf(err)
	}
	if c, ok := syntaxCodes[code]; ok {
		return c, code
	}
	return 99, code
}

// ---------- independent recogniser of the expression grammar (list of successes over token kinds) ----------

type refRes struct {
	rpn  []string
	rest int
}

type refParser struct{ ts []string } // kinds: "C", "V", or the operator spelling in canonical form

func (p *refParser) tok(i int) string {
	if i < len(p.ts) {
		return p.ts[i]
	}
	return ""
}
func cat(a []string, b ...string) []string { r := append([]string{}, a...); return append(r, b...) }

func (p *refParser) loop(l refRes, ops map[string]bool, sub func(int) []refRes) []refRes {
	out := []refRes{l}
	t := p.tok(l.rest)
	if ops[t] {
		for _, r := range sub(l.rest + 1) {
			out = append(out, p.loop(refRes{cat(cat(l.rpn, r.rpn...), t), r.rest}, ops, sub)...)
		}
	}
	return out
}
func (p *refParser) level(i int, ops map[string]bool, sub func(int) []refRes) []refRes {
	var out []refRes
	for _, l := range sub(i) {
		out = append(out, p.loop(l, ops, sub)...)
	}
	return out
}

var ops0 = map[string]bool{"AND": true, "OR": true, "XOR": true}
var ops2 = map[string]bool{"=": true, "<>": true, ">": true, "<": true, ">=": true, "<=": true}
var ops4 = map[string]bool{"*": true, "/": true, "%": true}
var ops5 = map[string]bool{"^": true, "IN": true, "<<": true, ">>": true}

func (p *refParser) e0(i int) []refRes { return p.level(i, ops0, p.e1) }
func (p *refParser) e1(i int) []refRes {
	if p.tok(i) == "NOT" {
		var out []refRes
		for _, r := range p.e2(i + 1) {
			out = append(out, refRes{cat(r.rpn, "NOT"), r.rest})
		}
		return out
	}
	return p.e2(i)
}
func (p *refParser) e2(i int) []refRes { return p.level(i, ops2, p.e3) }
func (p *refParser) e3(i int) []refRes {
	var out []refRes
	for _, l := range p.e4(i) {
		out = append(out, p.e3loop(l)...)
	}
	return out
}
func (p *refParser) e3loop(l refRes) []refRes {
	out := []refRes{l}
	t, t1, t2 := p.tok(l.rest), p.tok(l.rest+1), p.tok(l.rest+2)
	if t == "+" || t == "-" || t == "LIKE" {
		for _, r := range p.e4(l.rest + 1) {
			out = append(out, p.e3loop(refRes{cat(cat(l.rpn, r.rpn...), t), r.rest})...)
		}
	}
	if t == "NOT" && t1 == "LIKE" {
		for _, r := range p.e4(l.rest + 2) {
			out = append(out, p.e3loop(refRes{cat(cat(l.rpn, r.rpn...), "NOTLIKE"), r.rest})...)
		}
	}
	if t == "NOT" && t1 == "IN" {
		for _, r := range p.e4(l.rest + 2) {
			out = append(out, p.e3loop(refRes{cat(cat(l.rpn, r.rpn...), "NOTIN"), r.rest})...)
		}
	}
	if t == "IS" && t1 == "NULL" {
		out = append(out, p.e3loop(refRes{cat(l.rpn, "ISNULL"), l.rest + 2})...)
	}
	if t == "IS" && t1 == "NOT" && t2 == "NULL" {
		out = append(out, p.e3loop(refRes{cat(l.rpn, "ISNOTNULL"), l.rest + 3})...)
	}
	return out
}
func (p *refParser) e4(i int) []refRes { return p.level(i, ops4, p.e5) }
func (p *refParser) e5(i int) []refRes { return p.level(i, ops5, p.e6) }
func (p *refParser) e6(i int) []refRes {
	neg := false
	if p.tok(i) == "+" {
		i++
	} else if p.tok(i) == "-" {
		neg = true
		i++
	}
	var prim []refRes
	switch t := p.tok(i); {
	case t == "C":
		prim = []refRes{{[]string{fmt.Sprint("C", i)}, i + 1}}
	case t == "V" && p.tok(i+1) == "(":
		fn := i
		var argsFrom func(j int, n int, acc []string) []refRes
		argsFrom = func(j int, n int, acc []string) []refRes {
			var out []refRes
			if p.tok(j) == ")" {
				out = append(out, refRes{cat(acc, fmt.Sprint("#", n), fmt.Sprint("F", fn)), j + 1})
			}
			for _, a := range p.e0(j) {
				acc2 := cat(acc, a.rpn...)
				if p.tok(a.rest) == ")" {
					out = append(out, refRes{cat(acc2, fmt.Sprint("#", n+1), fmt.Sprint("F", fn)), a.rest + 1})
				}
				if p.tok(a.rest) == "," {
					out = append(out, argsFrom(a.rest+1, n+1, acc2)...)
				}
			}
			return out
		}
		prim = argsFrom(i+2, 0, nil)
	case t == "V":
		prim = []refRes{{[]string{fmt.Sprint("V", i)}, i + 1}}
	case t == "(":
		for _, r := range p.e0(i + 1) {
			if p.tok(r.rest) == ")" {
				prim = append(prim, refRes{r.rpn, r.rest + 1})
			}
		}
	}
	var out []refRes
	for _, r := range prim {
		if neg {
			r = refRes{cat(r.rpn, "NEG"), r.rest}
		}
		out = append(out, r)
		if p.tok(r.rest) == "[" {
			for _, ix := range p.e0(r.rest + 1) {
				if p.tok(ix.rest) == "]" {
					out = append(out, refRes{cat(cat(r.rpn, ix.rpn...), "ELEM"), ix.rest + 1})
				}
			}
		}
	}
	return out
}

// refParse returns the distinct complete derivations (as RPN listings) of a kind sequence.
func refParse(kinds []string) []string {
	p := &refParser{kinds}
	var full []string
	seen := map[string]bool{}
	for _, r := range p.e0(0) {
		if r.rest == len(kinds) {
			k := strings.Join(r.rpn, " ")
			if !seen[k] {
				seen[k] = true
				full = append(full, k)
			}
		}
	}
	return full
}

// the language's lexical vocabulary as the oracle knows it (independent of the parser's table)
var refOps = map[string]string{"(": "(", ")": ")", "[": "[", "]": "]", "+": "+", "-": "-", "*": "*", "/": "/", "%": "%", "^": "^",
	"=": "=", "<>": "<>", "!=": "<>", ">": ">", "<": "<", ">=": ">=", "<=": "<=", "<<": "<<", ">>": ">>",
	"AND": "AND", "OR": "OR", "XOR": "XOR", "NOT": "NOT", "IS": "IS", "IN": "IN", "NULL": "NULL", "LIKE": "LIKE", ",": ","}

// refKinds maps tokenizer tokens to grammar kinds; ok=false if a token is not part of the language.
func refKinds(toks []srcTok) (kinds []string, ok bool) {
	kinds, _, ok = refKindsIdx(toks)
	return
}

// refKindsIdx also returns, for every kind, the index of its token in toks.
func refKindsIdx(toks []srcTok) (kinds []string, index []int, ok bool) {
	defer func() {
		if len(index) > len(kinds) {
			index = index[:len(kinds)]
		}
	}()
	for ti, t := range toks {
		index = append(index[:len(kinds)], ti)
		switch t.Type {
		case tokenizers.Whitespace:
			continue
		case tokenizers.Integer, tokenizers.Float, tokenizers.Quoted:
			kinds = append(kinds, "C")
		case tokenizers.Word:
			if t.Value == "" {
				return nil, nil, false
			}
			kinds = append(kinds, "V")
		case tokenizers.Keyword, tokenizers.Symbol:
			u := strings.ToUpper(t.Value)
			if t.Type == tokenizers.Keyword && (u == "TRUE" || u == "FALSE") {
				kinds = append(kinds, "C")
			} else if k, found := refOps[u]; found {
				kinds = append(kinds, k)
			} else {
				return nil, nil, false
			}
		default:
			return nil, nil, false
		}
	}
	return kinds, index, true
}

var etName = map[int]string{parsers.Plus: "+", parsers.Minus: "-", parsers.Star: "*", parsers.Slash: "/", parsers.Procent: "%", parsers.Power: "^",
	parsers.Equal: "=", parsers.NotEqual: "<>", parsers.More: ">", parsers.Less: "<", parsers.EqualMore: ">=", parsers.EqualLess: "<=",
	parsers.ShiftLeft: "<<", parsers.ShiftRight: ">>", parsers.And: "AND", parsers.Or: "OR", parsers.Xor: "XOR", parsers.Not: "NOT",
	parsers.In: "IN", parsers.NotIn: "NOTIN", parsers.Like: "LIKE", parsers.NotLike: "NOTLIKE", parsers.IsNull: "ISNULL",
	parsers.IsNotNull: "ISNOTNULL", parsers.Element: "ELEM", parsers.Unary: "NEG"}

// treePostorder lists the operator/leaf skeleton of a tree in post-order, in the vocabulary of etName.
func treePostorder(t *Tree, out *[]string) {
	switch t.Kind {
	case "const":
		*out = append(*out, "C")
	case "var":
		*out = append(*out, "V:"+strings.Trim(t.Text, "\""))
	case "call":
		for _, a := range t.Args {
			treePostorder(a, out)
		}
		*out = append(*out, fmt.Sprint("#", len(t.Args)), "F:"+t.Text)
	default:
		for _, a := range t.Args {
			treePostorder(a, out)
		}
		*out = append(*out, t.Op)
	}
}
