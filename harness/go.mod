module harness

go 1.18

require github.com/pip-services3-gox/pip-services3-expressions-gox v0.0.0

replace github.com/pip-services3-gox/pip-services3-expressions-gox => /repo
