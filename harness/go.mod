module harness

go 1.21

require (
	github.com/pip-services3-gox/pip-services3-commons-gox v1.0.8
	github.com/pip-services3-gox/pip-services3-expressions-gox v0.0.0
)

replace github.com/pip-services3-gox/pip-services3-expressions-gox => /repo
